import Proofs.ExtremaAux2
/-!
# Auxiliary lemmas for C02, part 3: alternation
-/
namespace Bycycle
def altS : Option Int → List Int → List Int → Bool
  | _, [], T => T.isEmpty
  | lo, p :: P, T => (match lo with | some l => decide (l < p) | none => true) && altS (some p) T P
termination_by _ P T => P.length + T.length
decreasing_by simp; omega

theorem altS_nil (lo : Option Int) (T : List Int) : altS lo [] T = T.isEmpty := by
  unfold altS; rfl
theorem altS_cons (lo : Option Int) (p : Int) (P T : List Int) :
    altS lo (p :: P) T = ((match lo with | some l => decide (l < p) | none => true) && altS (some p) T P) := by
  conv => lhs; unfold altS

theorem altFrom_eq_altS (k : Bool) (lo : Option Int) (P T : List Int) :
    altFrom k lo P T = if k then altS lo P T else altS lo T P := by
  fun_induction altFrom k lo P T with
  | case1 => simp [altS_nil]
  | case2 lo p ps ts ih =>
    simp only [if_true] at *
    rw [altS_cons, ih]; cases lo <;> simp
  | case3 lo ps t ts ih =>
    simp only [if_true] at *
    rw [altS_cons, ih]; cases lo <;> simp
  | case4 k lo P T h1 h2 h3 =>
    cases k with
    | true =>
      cases P with
      | nil =>
        cases T with
        | nil => exact (h1 rfl rfl).elim
        | cons t ts => simp [altS_nil]
      | cons p ps => exact (h2 _ _ rfl rfl).elim
    | false =>
      cases T with
      | nil =>
        cases P with
        | nil => exact (h1 rfl rfl).elim
        | cons p ps => simp [altS_nil]
      | cons t ts => exact (h3 _ _ rfl rfl).elim

def gtLo (lo : Option Int) (p : Int) : Prop := ∀ l, lo = some l → l < p

theorem altS_cons_iff (lo : Option Int) (p : Int) (P T : List Int) :
    altS lo (p :: P) T = true ↔ gtLo lo p ∧ altS (some p) T P = true := by
  rw [altS_cons]
  cases lo <;> simp [gtLo]

theorem altS_nil_iff (lo : Option Int) (T : List Int) : altS lo [] T = true ↔ T = [] := by
  rw [altS_nil]; simp

/-! ## crossing level -/

/-- `altNS lo A B`: the crossing lists `A`, `B` merge into one strictly increasing alternating sequence
of values `≥ lo` that starts with `A`. -/
def altNS : Nat → List Nat → List Nat → Prop
  | _, [], B => B = []
  | lo, a :: A, B => lo ≤ a ∧ altNS (a + 1) B A
termination_by _ A B => A.length + B.length
decreasing_by simp; omega

theorem altNS_nil (lo : Nat) (B : List Nat) : altNS lo [] B ↔ B = [] := by
  unfold altNS; rfl
theorem altNS_cons (lo a : Nat) (A B : List Nat) : altNS lo (a :: A) B ↔ lo ≤ a ∧ altNS (a + 1) B A := by
  conv => lhs; unfold altNS

theorem altNS_lb (lo : Nat) (A B : List Nat) (h : altNS lo A B) :
    (∀ x ∈ A, lo ≤ x) ∧ (∀ x ∈ B, lo ≤ x) := by
  fun_induction altNS lo A B with
  | case1 lo B =>
    subst h; simp
  | case2 lo a A B ih =>
    obtain ⟨h1, h2⟩ := ih h.2
    refine ⟨?_, ?_⟩
    · intro x hx
      rcases List.mem_cons.1 hx with e | e
      · omega
      · have := h2 x e; omega
    · intro x hx
      have := h1 x hx; omega

theorem crossings_altNS (b : List Bool) (i0 lo : Nat) (hlo : lo ≤ i0) :
    (b.headD false = true → altNS lo (crossingsAux b i0) (crossingsAux (b.map (!·)) i0)) ∧
    (b.headD false = false → altNS lo (crossingsAux (b.map (!·)) i0) (crossingsAux b i0)) := by
  induction b generalizing i0 lo with
  | nil => simp [crossingsAux, altNS_nil]
  | cons a t ih =>
    cases t with
    | nil => simp [crossingsAux, altNS_nil]
    | cons c rest =>
      have ih1 := ih (i0 + 1)
      simp only [List.map_cons, List.headD_cons] at ih1 ⊢
      cases a <;> cases c <;> simp [crossingsAux, altNS_cons] <;> simp at ih1
      · exact ih1 lo (by omega)
      · exact ⟨hlo, ih1 (i0 + 1) (by omega)⟩
      · exact ⟨hlo, ih1 (i0 + 1) (by omega)⟩
      · exact ih1 lo (by omega)

/-- `closedPos`/`closedNeg` as one function of the two crossing lists. -/
def pairsA (A B : List Nat) : List (Nat × Nat) :=
  A.filterMap fun a => (B.find? (fun x => decide (a < x))).map fun x => (a, x)

theorem closedPos_eq_pairsA (b : List Bool) : closedPos b = pairsA (risingX b) (decayingX b) := rfl
theorem closedNeg_eq_pairsA (b : List Bool) : closedNeg b = pairsA (decayingX b) (risingX b) := rfl

theorem pairsA_nil_left (B : List Nat) : pairsA [] B = [] := rfl
theorem pairsA_nil_right (A : List Nat) : pairsA A [] = [] := by
  simp [pairsA]

theorem pairsA_cons_cons (a b0 : Nat) (A B : List Nat) (h : a < b0) :
    pairsA (a :: A) (b0 :: B) = (a, b0) :: pairsA A (b0 :: B) := by
  simp [pairsA, List.find?_cons, h]

theorem pairsA_skip (X : List Nat) (a : Nat) (A : List Nat) (h : ∀ x ∈ X, a ≤ x) :
    pairsA X (a :: A) = pairsA X A := by
  induction X with
  | nil => rfl
  | cons x X ih =>
    have hx : ¬ x < a := by have := h x (by simp); omega
    have e1 : (a :: A).find? (fun y => decide (x < y)) = A.find? (fun y => decide (x < y)) := by
      simp [hx]
    have := ih (fun y hy => h y (List.mem_cons_of_mem _ hy))
    unfold pairsA at this ⊢
    rw [List.filterMap_cons, List.filterMap_cons, e1, this]

theorem picks_alt (lo : Nat) (A B : List Nat) (h : altNS lo A B) :
    ∀ (f g : Nat × Nat → Nat),
      (∀ r d, r ∈ A → d ∈ B → r < d → r ≤ f (r, d) ∧ f (r, d) < d) →
      (∀ d r, d ∈ B → r ∈ A → d < r → d ≤ g (d, r) ∧ g (d, r) < r) →
      ∀ lob : Option Int, (∀ l a, lob = some l → A.head? = some a → l < (a : Int)) →
      altS lob (((pairsA A B).map f).map Int.ofNat) (((pairsA B A).map g).map Int.ofNat) = true := by
  fun_induction altNS lo A B with
  | case1 lo B =>
    intro f g _ _ lob _
    simp [pairsA_nil_left, pairsA_nil_right, altS_nil]
  | case2 lo a A B ih =>
    intro f g hf hg lob hlob
    cases B with
    | nil =>
      have : A = [] := (altNS_nil _ _).1 h.2
      subst this
      simp [pairsA_nil_left, pairsA_nil_right, altS_nil]
    | cons b0 B =>
      have h2 := h.2
      have hlb := altNS_lb _ _ _ h2
      rw [altNS_cons] at h2
      have hab : a < b0 := by omega
      rw [pairsA_cons_cons a b0 A B hab, pairsA_skip (b0 :: B) a A (fun x hx => by have := hlb.1 x hx; omega)]
      simp only [List.map_cons]
      rw [altS_cons_iff]
      have hfa := hf a b0 (by simp) (by simp) hab
      refine ⟨?_, ?_⟩
      · intro l hl
        have := hlob l a hl (by simp)
        simp only [Int.ofNat_eq_natCast]
        omega
      · apply ih h.2 g f
        · intro r d hr hd hrd
          exact hg r d hr (List.mem_cons_of_mem _ hd) hrd
        · intro d r hd hr hdr
          exact hf d r (List.mem_cons_of_mem _ hd) hr hdr
        · intro l x hl hx
          simp only [List.head?_cons, Option.some.injEq] at hl hx
          subst hl hx
          simp only [Int.ofNat_eq_natCast]
          omega

theorem mem_pairsA (A B : List Nat) (a x : Nat) (h : (a, x) ∈ pairsA A B) : a ∈ A ∧ x ∈ B ∧ a < x := by
  unfold pairsA at h
  simp only [List.mem_filterMap, Option.map_eq_some_iff, Prod.mk.injEq] at h
  obtain ⟨a', ha', x', hx', rfl, rfl⟩ := h
  exact ⟨ha', List.mem_of_find?_eq_some hx', by simpa using List.find?_some hx'⟩

theorem filterMap_eq_map_of {α β} (F : α → Option β) (f : α → β) (l : List α)
    (h : ∀ x ∈ l, F x = some (f x)) : l.filterMap F = l.map f := by
  induction l with
  | nil => rfl
  | cons a t ih =>
    rw [List.filterMap_cons, h a (by simp), List.map_cons, ih (fun x hx => h x (List.mem_cons_of_mem _ hx))]

def pickOf (pick : List Rat → Option Nat) (sig : List Rat) : Nat × Nat → Nat :=
  fun p => (pick (slice sig p.1 p.2)).getD 0 + p.1

theorem slice_length (sig : List Rat) (s e : Nat) : (slice sig s e).length = min e sig.length - s := by
  simp [slice]

theorem pickMax_bounds (sig : List Rat) (r d : Nat) (h : r < d) (hd : d ≤ sig.length) :
    r ≤ pickOf argmaxFirst sig (r, d) ∧ pickOf argmaxFirst sig (r, d) < d := by
  unfold pickOf
  simp only
  have hs := argmaxFirst_isSome_aux _ (slice_ne_nil sig r d h hd)
  cases hp : argmaxFirst (slice sig r d) with
  | none => rw [hp] at hs; simp at hs
  | some i =>
    have := (argmaxFirst_spec_aux _ i hp).1
    rw [slice_length] at this
    simp only [Option.getD_some]
    omega

theorem pickMin_bounds (sig : List Rat) (r d : Nat) (h : r < d) (hd : d ≤ sig.length) :
    r ≤ pickOf argminFirst sig (r, d) ∧ pickOf argminFirst sig (r, d) < d := by
  unfold pickOf
  simp only
  have hs := argminFirst_isSome_aux _ (slice_ne_nil sig r d h hd)
  cases hp : argminFirst (slice sig r d) with
  | none => rw [hp] at hs; simp at hs
  | some i =>
    have := (argminFirst_spec_aux _ i hp).1
    rw [slice_length] at this
    simp only [Option.getD_some]
    omega

theorem peaksSpec_eq_map (sig : List Rat) (b : List Bool) (hlen : sig.length = b.length) :
    peaksSpec sig b = (pairsA (risingX b) (decayingX b)).map (pickOf argmaxFirst sig) := by
  unfold peaksSpec
  rw [closedPos_eq_pairsA]
  apply filterMap_eq_map_of
  rintro ⟨r, d⟩ hx
  obtain ⟨_, hd, hrd⟩ := mem_pairsA _ _ _ _ hx
  have := ((mem_decayingX_aux b d).1 hd).1
  have hs := argmaxFirst_isSome_aux _ (slice_ne_nil sig r d hrd (by omega))
  unfold pickOf
  simp only
  cases hp : argmaxFirst (slice sig r d) with
  | none => rw [hp] at hs; simp at hs
  | some i => simp

theorem troughsSpec_eq_map (sig : List Rat) (b : List Bool) (hlen : sig.length = b.length) :
    troughsSpec sig b = (pairsA (decayingX b) (risingX b)).map (pickOf argminFirst sig) := by
  unfold troughsSpec
  rw [closedNeg_eq_pairsA]
  apply filterMap_eq_map_of
  rintro ⟨r, d⟩ hx
  obtain ⟨_, hd, hrd⟩ := mem_pairsA _ _ _ _ hx
  have := ((mem_risingX_aux b d).1 hd).1
  have hs := argminFirst_isSome_aux _ (slice_ne_nil sig r d hrd (by omega))
  unfold pickOf
  simp only
  cases hp : argminFirst (slice sig r d) with
  | none => rw [hp] at hs; simp at hs
  | some i => simp

theorem StrictAlt_iff (P T : List Int) : StrictAlt P T ↔ (altS none P T = true ∨ altS none T P = true) := by
  unfold StrictAlt
  rw [altFrom_eq_altS, altFrom_eq_altS]
  simp

theorem spec_alternating_aux (sig : List Rat) (b : List Bool) (hlen : sig.length = b.length) :
    StrictAlt ((peaksSpec sig b).map Int.ofNat) ((troughsSpec sig b).map Int.ofNat) := by
  rw [StrictAlt_iff, peaksSpec_eq_map sig b hlen, troughsSpec_eq_map sig b hlen]
  have hc := crossings_altNS b 0 0 (Nat.le_refl _)
  have hmax : ∀ r d, r ∈ risingX b → d ∈ decayingX b → r < d →
      r ≤ pickOf argmaxFirst sig (r, d) ∧ pickOf argmaxFirst sig (r, d) < d := by
    intro r d _ hd hrd
    have := ((mem_decayingX_aux b d).1 hd).1
    exact pickMax_bounds sig r d hrd (by omega)
  have hmin : ∀ d r, d ∈ decayingX b → r ∈ risingX b → d < r →
      d ≤ pickOf argminFirst sig (d, r) ∧ pickOf argminFirst sig (d, r) < r := by
    intro d r _ hr hdr
    have := ((mem_risingX_aux b r).1 hr).1
    exact pickMin_bounds sig d r hdr (by omega)
  cases hb : b.headD false with
  | false =>
    left
    exact picks_alt 0 _ _ (hc.2 hb) _ _ hmax hmin none (by intro l a h; cases h)
  | true =>
    right
    exact picks_alt 0 _ _ (hc.1 hb) _ _ hmin hmax none (by intro l a h; cases h)

end Bycycle
