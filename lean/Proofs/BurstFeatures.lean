import BycycleModel.BurstFeatures
import Proofs.BurstFeaturesAux
/-!
# Helper lemmas for C05 (burst features)

The proofs (and their auxiliary lemmas) are in `Proofs/BurstFeaturesAux.lean`, namespace `Bycycle.BurstAux`.
-/
namespace Bycycle

/-- both centring branches of `compute_amp_consistency` compute one and the same centring-free quantity:
for interior cycle `c` the smallest min/max ratio among the three adjacent flank pairs
(F[2c-1],F[2c]), (F[2c],F[2c+1]), (F[2c+1],F[2c+2]) of the temporal flank sequence, clamped at 0;
NaN for the first and last cycle. -/
theorem ampConsistency_eq_spec (pc : Bool) (rises decays : List Rat) (hlen : rises.length = decays.length)
    (hn : 0 < rises.length) :
    ampConsistency pc .both rises decays =
      .ok ((List.range rises.length).map fun c =>
        if c = 0 ∨ c + 1 = rises.length then F.nan else ampConsSpec (flankSeq pc rises decays) c) := by
  exact BurstAux.ampConsistency_eq_spec pc rises decays hlen hn

/-- all three directions: the centring branches compute the centring-free directional quantity. -/
theorem ampConsistency_dir_eq_spec (pc : Bool) (dir : Direction) (rises decays : List Rat)
    (hlen : rises.length = decays.length) (hn : 0 < rises.length) :
    ampConsistency pc dir rises decays =
      .ok ((List.range rises.length).map fun c =>
        if c = 0 ∨ c + 1 = rises.length then F.nan else ampConsSpecDir dir (flankSeq pc rises decays) c) := by
  exact BurstAux.ampConsistency_dir_eq_spec pc dir rises decays hlen hn

theorem ampConsSpecDir_both (fl : List Rat) (c : Nat) : ampConsSpecDir .both fl c = ampConsSpec fl c := by
  exact BurstAux.ampConsSpecDir_both fl c

theorem ampConsistency_empty (pc : Bool) (dir : Direction) (decays : List Rat) :
    ampConsistency pc dir [] decays = .error .indexError := by
  exact BurstAux.ampConsistency_empty pc dir decays

/-- the flank sequence really is the temporal sequence: cycle `c` owns entries `2c` and `2c+1`. -/
theorem flankSeq_get (pc : Bool) (rises decays : List Rat) (c : Nat) (hc : c < rises.length) :
    (flankSeq pc rises decays).getD (2 * c) 0 = (if pc then rises.getD c 0 else decays.getD c 0) ∧
    (flankSeq pc rises decays).getD (2 * c + 1) 0 = (if pc then decays.getD c 0 else rises.getD c 0) := by
  exact BurstAux.flankSeq_get pc rises decays c hc

/-- with positive flank voltages the amplitude consistency lies in (0, 1]. -/
theorem ampConsSpec_range (fl : List Rat) (c : Nat) (hc : 1 ≤ c)
    (hpos : 0 < fl.getD (2*c - 1) 0 ∧ 0 < fl.getD (2*c) 0 ∧ 0 < fl.getD (2*c + 1) 0 ∧ 0 < fl.getD (2*c + 2) 0) :
    ∃ q, ampConsSpec fl c = .fin q ∧ 0 < q ∧ q ≤ 1 := by
  exact BurstAux.ampConsSpec_range fl c hc hpos

/-- the clamp: never negative. -/
theorem ampConsSpec_nonneg (fl : List Rat) (c : Nat) : (ampConsSpec fl c).neg? = false := by
  exact BurstAux.ampConsSpec_nonneg fl c

/-- period consistency: NaN at the ends, else the smaller min/max ratio of the period with the previous
and with the next period. -/
theorem periodConsistency_spec (periods : List Rat) (hn : 0 < periods.length) (hpos : ∀ p ∈ periods, 0 < p) :
    periodConsistency .both periods =
      .ok ((List.range periods.length).map fun c =>
        if c = 0 ∨ c + 1 = periods.length then F.nan
        else F.fin (min (min (periods.getD c 0) (periods.getD (c - 1) 0) / max (periods.getD c 0) (periods.getD (c - 1) 0))
                        (min (periods.getD (c + 1) 0) (periods.getD c 0) / max (periods.getD (c + 1) 0) (periods.getD c 0)))) := by
  exact BurstAux.periodConsistency_spec periods hn hpos

theorem periodConsistency_dir_spec (periods : List Rat) (hn : 0 < periods.length) (hpos : ∀ p ∈ periods, 0 < p) :
    periodConsistency .next periods =
      .ok ((List.range periods.length).map fun c =>
        if c = 0 ∨ c + 1 = periods.length then F.nan
        else F.fin (min (periods.getD (c + 1) 0) (periods.getD c 0) / max (periods.getD (c + 1) 0) (periods.getD c 0))) ∧
    periodConsistency .last periods =
      .ok ((List.range periods.length).map fun c =>
        if c = 0 ∨ c + 1 = periods.length then F.nan
        else F.fin (min (periods.getD c 0) (periods.getD (c - 1) 0) / max (periods.getD c 0) (periods.getD (c - 1) 0))) := by
  exact BurstAux.periodConsistency_dir_spec periods hn hpos

theorem ratio_pos_range (a b : Rat) (ha : 0 < a) (hb : 0 < b) : 0 < min a b / max a b ∧ min a b / max a b ≤ 1 := by
  exact BurstAux.ratio_pos_range a b ha hb

/-- the step fractions count STRICTLY increasing / decreasing steps. -/
theorem stepFraction_eq_spec (up : Bool) (w : List Rat) : stepFraction up w = stepFractionSpec up w := by
  exact BurstAux.stepFraction_eq_spec up w

theorem stepFractionSpec_range (up : Bool) (w : List Rat) (q : Rat) (h : stepFractionSpec up w = .fin q) :
    0 ≤ q ∧ q ≤ 1 := by
  exact BurstAux.stepFractionSpec_range up w q h

/-- monotonicity of a cycle is the mean of the two step fractions and lies in [0,1]. -/
theorem meanF2_range (a b : F) (q : Rat) (ha : ∀ x, a = .fin x → 0 ≤ x ∧ x ≤ 1) (hb : ∀ x, b = .fin x → 0 ≤ x ∧ x ≤ 1)
    (h : meanF2 a b = .fin q) : 0 ≤ q ∧ q ≤ 1 := by
  exact BurstAux.meanF2_range a b q ha hb h

/-- amp_fraction: rank/n lies in (0, 1]; equal amplitudes get equal fractions; a larger amplitude a larger one. -/
theorem ampFraction_range (xs : List Rat) (x : Rat) (hx : x ∈ xs) :
    0 < rankAvg xs x / (xs.length : Rat) ∧ rankAvg xs x / (xs.length : Rat) ≤ 1 := by
  exact BurstAux.ampFraction_range xs x hx

theorem rankAvg_strictMono (xs : List Rat) (x y : Rat) (hx : x ∈ xs) (hy : y ∈ xs) (h : x < y) :
    rankAvg xs x < rankAvg xs y := by
  exact BurstAux.rankAvg_strictMono xs x y hx hy h

/-- average rank: with `k` equal entries occupying ranks `s+1 … s+k` each gets `s + (k+1)/2`. -/
theorem rankAvg_def (xs : List Rat) (x : Rat) :
    rankAvg xs x = ((xs.filter fun y => decide (y < x)).length : Rat) + (((xs.filter fun y => decide (y = x)).length : Rat) + 1) / 2 := by
  exact BurstAux.rankAvg_def xs x

theorem ampFraction_get (va : List Rat) (i : Nat) (hi : i < va.length) :
    (ampFraction va).getD i 0 = rankAvg va (va.getD i 0) / (va.length : Rat) := by
  exact BurstAux.ampFraction_get va i hi

end Bycycle
