import BycycleModel.ObjMachine
import Proofs.Objs
/-! # Proofs about the `Bycycle` object state machine -/
namespace Bycycle.Obj

variable {S T : Type}

theorem step_settings (A : Api S T) (o : Obj S T) (op : Op S T) :
    (step A o op).1.st = editSettings o.st op := by
  cases op <;> simp only [step, editSettings]
  · split
    · rfl
    · split <;> rfl
  · split
    · rfl
    · split <;> rfl

/-- the settings after any history are the constructor's settings with the edit operations applied, in order:
fits, edge recomputations, loads and attribute reads leave no trace in them. -/
theorem run_settings (A : Api S T) (o : Obj S T) (ops : List (Op S T)) :
    (run A o ops).st = ops.foldl editSettings o.st := by
  induction ops generalizing o with
  | nil => rfl
  | cons op ops ih =>
    simp only [run, List.foldl_cons] at *
    rw [ih, step_settings]

/-- a successful fit stores exactly `compute_features(current settings, x)` and the signal. -/
theorem fit_ok (A : Api S T) (o : Obj S T) (x : S) (t : T) (h1 : A.oneD x = true) (h : A.cf o.st x = .ok t) :
    step A o (.fit x) = ({ o with sig := some x, df := some t }, .done) := by
  simp [step, h1, h]

/-- a fit whose computation raises: the signal has been replaced, the PREVIOUS table is still there. -/
theorem fit_raises (A : Api S T) (o : Obj S T) (x : S) (e : Err) (h1 : A.oneD x = true) (h : A.cf o.st x = .error e) :
    step A o (.fit x) = ({ o with sig := some x }, .raised) := by
  simp [step, h1, h]

theorem fit_not_1d (A : Api S T) (o : Obj S T) (x : S) (h1 : A.oneD x = false) :
    step A o (.fit x) = (o, .raised) := by
  simp [step, h1]

/-- HISTORY INDEPENDENCE: after any sequence of operations, a fit gives the outcome and the table that a freshly
constructed object holding the current settings gives; the current settings are the constructor's with the
edits applied. -/
theorem fit_after_history (A : Api S T) (o : Obj S T) (ops : List (Op S T)) (x : S) :
    let cur := ops.foldl editSettings o.st
    (step A (run A o ops) (.fit x)).2 = (step A (fresh cur) (.fit x)).2 ∧
    ((step A (fresh cur) (.fit x)).2 = .done →
      (step A (run A o ops) (.fit x)).1.df = (step A (fresh (S := S) (T := T) cur) (.fit x)).1.df ∧
      (step A (run A o ops) (.fit x)).1.sig = some x ∧
      ∃ t, A.cf cur x = .ok t ∧ (step A (run A o ops) (.fit x)).1.df = some t) := by
  intro cur
  have hst : (run A o ops).st = cur := run_settings A o ops
  cases h1 : A.oneD x
  · simp [step, h1]
  · cases h : A.cf cur x with
    | error e => simp [step, h1, fresh, hst, h]
    | ok t => simp [step, h1, fresh, hst, h]

/-- `recompute_edges(r)` is the functional edge recomputation of the current table with every `*threshold`
entry lowered by `r`; the stored settings are untouched. -/
theorem edges_spec (A : Api S T) (o : Obj S T) (r : Option Rat) (t : T) (hdf : o.df = some t) :
    let lowered := o.st.thresholds.map fun p => if p.1.endsWith "threshold" then (p.1, p.2 - r.getD 0) else p
    (step A o (.edges r)).1.st = o.st ∧
    (∀ t', A.rc t lowered = .ok t' → step A o (.edges r) = ({ o with df := some t' }, .done)) ∧
    (∀ e, A.rc t lowered = .error e → step A o (.edges r) = (o, .raised)) := by
  intro lowered
  have hl : reduceThresholds o.st.thresholds r = lowered := reduceThresholds_spec _ _
  refine ⟨step_settings A o (.edges r), ?_, ?_⟩
  · intro t' h; simp [step, hdf, hl, h]
  · intro e h; simp [step, hdf, hl, h]

theorem edges_without_table (A : Api S T) (o : Obj S T) (r : Option Rat) (hdf : o.df = none) :
    step A o (.edges r) = (o, .raised) := by
  simp [step, hdf]

/-- attribute access returns the column of the CURRENT table and changes nothing. -/
theorem attr_spec (A : Api S T) (o : Obj S T) (key : String) :
    (step A o (.attr key)).1 = o ∧
    (∀ t, o.df = some t → (step A o (.attr key)).2 = match A.col t key with | some v => .column v | none => .raised) ∧
    (o.df = none → (step A o (.attr key)).2 = .raised) := by
  refine ⟨rfl, ?_, ?_⟩
  · intro t h; simp only [step, h]; cases A.col t key <;> rfl
  · intro h; simp [step, h]

/-- the table after any history is the one assigned by the LAST table-assigning operation that succeeded
(fit / recompute_edges / load); edits and attribute reads keep it. -/
theorem table_kept (A : Api S T) (o : Obj S T) (op : Op S T)
    (h : match op with | .edit .. => True | .rebind .. => True | .editbk .. => True | .attr .. => True | .plot => True | _ => False) :
    (step A o op).1.df = o.df ∧ (step A o op).1.sig = o.sig := by
  cases op <;> simp_all [step]

/-- plotting changes nothing: not the settings (the thresholds it is handed are the object's own dictionary), not the signal, not the table. -/
theorem plot_spec (A : Api S T) (o : Obj S T) :
    (step A o .plot).1 = o ∧ ((step A o .plot).2 = .done ↔ (o.df.isSome = true ∧ o.sig.isSome = true)) := by
  refine ⟨rfl, ?_⟩
  simp only [step]
  cases o.df <;> cases o.sig <;> simp

theorem load_spec (A : Api S T) (o : Obj S T) (t : T) (x : S) :
    step A o (.load t x) = ({ o with sig := some x, df := some t }, .done) := rfl

theorem setKey_get (d : KV) (k : String) (v : Rat) : (setKey d k v).lookup k = some v := by
  induction d with
  | nil => simp [setKey]
  | cons p rest ih =>
    obtain ⟨k', v'⟩ := p
    by_cases h : k' = k
    · simp [setKey, h]
    · have : (k == k') = false := by simp [Ne.symm h]
      simp [setKey, h, List.lookup, this, ih]

theorem setKey_other (d : KV) (k k2 : String) (v : Rat) (h : k2 ≠ k) : (setKey d k v).lookup k2 = d.lookup k2 := by
  induction d with
  | nil =>
    have : (k2 == k) = false := by simp [h]
    simp [setKey, List.lookup, this]
  | cons p rest ih =>
    obtain ⟨k', v'⟩ := p
    by_cases h' : k' = k
    · subst h'
      have : (k2 == k') = false := by simp [h]
      simp [setKey, List.lookup, this]
    · by_cases h2 : k2 = k'
      · simp [setKey, h', List.lookup, h2]
      · have : (k2 == k') = false := by simp [h2]
        simp [setKey, h', List.lookup, this, ih]

end Bycycle.Obj
