import BycycleModel.Shape
import Mathlib.Tactic.Ring
import Mathlib.Tactic.Linarith
import Mathlib.Tactic.FieldSimp
import Mathlib.Algebra.Order.Field.Basic
/-!
# Auxiliary lemmas for C04 (shape features)
-/
namespace Bycycle

theorem pyIdx_of_inside (x : List Rat) (i : Int) (h0 : 0 ≤ i) (h1 : i < x.length) :
    pyIdx x i = .ok (x.getD i.toNat 0) := by
  unfold pyIdx
  have hn : ¬ i < 0 := by omega
  have hlt : i.toNat < x.length := by omega
  simp [hn, h0, List.getD, List.getElem?_eq_getElem hlt]

theorem mapM_ok_of_pointwise {α β : Type} (f : α → Except Err β) (g : α → β) (l : List α)
    (h : ∀ a ∈ l, f a = .ok (g a)) : l.mapM f = .ok (l.map g) := by
  induction l with
  | nil => rfl
  | cons a t ih =>
    rw [List.mapM_cons, h a (by simp), ih (fun b hb => h b (by simp [hb]))]
    rfl

/-- the spec row with the band amplitude blanked: what `shapeOfRow` returns. -/
def shapeBase (x amp : List Rat) (r : SampleRow) : ShapeRow :=
  { shapeSpecPeak x amp r with bandAmp := .nan }

def specBand (amp : List Rat) (r : SampleRow) : F :=
  match meanRat (slice amp r.lastTrough.toNat r.nextTrough.toNat) with | some m => .fin m | none => .nan

theorem shapeOfRow_inside (x amp : List Rat) (r : SampleRow) (h : r.inside x.length) :
    shapeOfRow x r = .ok (shapeBase x amp r) := by
  obtain ⟨h1, h2, h3, h4, h5, h6, h7, h8, h9, h10⟩ := h
  unfold shapeOfRow
  rw [pyIdx_of_inside x r.peak (by omega) (by omega),
      pyIdx_of_inside x r.lastTrough (by omega) (by omega),
      pyIdx_of_inside x r.nextTrough (by omega) (by omega)]
  simp only [shapeBase, shapeSpecPeak, bind, Except.bind, Except.ok.injEq, ShapeRow.mk.injEq, true_and, and_true]
  ring



theorem slice_min_length {α} (l : List α) (a b : Nat) :
    slice l (min a l.length) (min b l.length) = slice l a b := by
  unfold slice
  have ht : l.take (min b l.length) = l.take b := by
    rw [List.take_eq_take_iff]; omega
  rw [ht]
  by_cases ha : a ≤ l.length
  · rw [Nat.min_eq_left ha]
  · have h1 : l.length ≤ a := by omega
    rw [Nat.min_eq_right h1]
    rw [List.drop_eq_nil_of_le, List.drop_eq_nil_of_le]
    · simp; omega
    · simp

theorem pySlice_nonneg (l : List Rat) (a b : Int) (ha : 0 ≤ a) (hb : 0 ≤ b) :
    pySlice l a b = slice l a.toNat b.toNat := by
  unfold pySlice
  have hna : ¬ a < 0 := by omega
  have hnb : ¬ b < 0 := by omega
  simp only [hna, hnb, if_false]
  have e1 : (min a (l.length : Int)).toNat = min a.toNat l.length := by omega
  have e2 : (min b (l.length : Int)).toNat = min b.toNat l.length := by omega
  rw [e1, e2, slice_min_length]

theorem getD_of_lt {α} (l : List α) (d : α) (i : Nat) (h : i < l.length) : l.getD i d = l[i] := by
  simp [List.getD_eq_getElem?_getD, List.getElem?_eq_getElem h]

theorem tiles_next (rows : List SampleRow) (ht : tiles rows) :
    ∀ i (h : i + 1 < rows.length), rows[i].nextTrough = rows[i+1].lastTrough := by
  induction rows with
  | nil => intro i h; simp at h
  | cons a t ih =>
    cases t with
    | nil => intro i h; simp at h
    | cons b rest =>
      obtain ⟨h1, _, h3⟩ := ht
      intro i h
      cases i with
      | zero => simpa using h1
      | succ j =>
        have := ih h3 j (by simpa using h)
        simpa using this

theorem bandAmps_eq (amp : List Rat) (n : Nat) (rows : List SampleRow) (hne : rows ≠ [])
    (hin : ∀ r ∈ rows, r.inside n) (ht : tiles rows) :
    bandAmps amp rows = .ok (rows.map (specBand amp)) := by
  cases rows with
  | nil => exact absurd rfl hne
  | cons r0 rest =>
    unfold bandAmps
    simp only [Except.ok.injEq]
    apply List.ext_getElem
    · simp
    · intro i h1 h2
      have hi : i < (r0 :: rest).length := by simpa using h1
      have hins := hin (r0 :: rest)[i] (List.getElem_mem hi)
      obtain ⟨_, q2, q3, q4, q5, q6, q7, _, _, _⟩ := hins
      have e1 : (r0.lastTrough :: (r0 :: rest).map (·.nextTrough)).getD i 0 = (r0 :: rest)[i].lastTrough := by
        cases i with
        | zero => simp
        | succ j =>
          have := tiles_next _ ht j hi
          simp only [List.getD_cons_succ]
          rw [getD_of_lt _ _ _ (by rw [List.length_map]; omega), List.getElem_map]
          exact this
      have e2 : (r0.lastTrough :: (r0 :: rest).map (·.nextTrough)).getD (i+1) 0 = (r0 :: rest)[i].nextTrough := by
        simp only [List.getD_cons_succ]
        rw [getD_of_lt _ _ _ (by rw [List.length_map]; exact hi), List.getElem_map]
      simp only [List.getElem_map, List.getElem_range]
      rw [e1, e2, pySlice_nonneg _ _ _ (by omega) (by omega)]
      rfl


theorem shapeBase_with_band (x amp : List Rat) (r : SampleRow) :
    { shapeBase x amp r with bandAmp := specBand amp r } = shapeSpecPeak x amp r := rfl

theorem shapePeak_eq_spec_aux (x amp : List Rat) (rows : List SampleRow) (hne : rows ≠ [])
    (hin : ∀ r ∈ rows, r.inside x.length) (ht : tiles rows) :
    shapePeak x amp rows = .ok (rows.map (shapeSpecPeak x amp)) := by
  unfold shapePeak
  rw [mapM_ok_of_pointwise (shapeOfRow x) (shapeBase x amp) rows
        (fun r hr => shapeOfRow_inside x amp r (hin r hr)),
      bandAmps_eq amp x.length rows hne hin ht]
  simp only [bind, Except.bind, Except.ok.injEq]
  apply List.ext_getElem
  · simp
  · intro i h1 h2
    simp only [List.getElem_map, List.getElem_zip]
    exact shapeBase_with_band x amp _


theorem getD_map_neg (x : List Rat) (i : Nat) (h : i < x.length) :
    (x.map (- ·)).getD i 0 = - x.getD i 0 := by
  rw [getD_of_lt _ _ _ (by rw [List.length_map]; exact h), getD_of_lt _ _ _ h, List.getElem_map]

theorem F.oneMinus_divRat (a p : Rat) (hp : p ≠ 0) : F.oneMinus (F.divRat a p) = F.divRat (p - a) p := by
  unfold F.divRat
  simp only [hp, if_false, F.oneMinus, F.fin.injEq]
  field_simp

theorem flip_rename_spec (x amp : List Rat) (r : SampleRow) (h : r.inside x.length) :
    Slots.flipShape (Slots.renameShape (shapeSpecPeak (x.map (- ·)) amp r)) =
      shapeSpecTrough x amp (Slots.renameSamples r) := by
  obtain ⟨h1, h2, h3, h4, h5, h6, h7, h8, h9, h10⟩ := h
  have ep := getD_map_neg x r.peak.toNat (by omega)
  have el := getD_map_neg x r.lastTrough.toNat (by omega)
  have en := getD_map_neg x r.nextTrough.toNat (by omega)
  have hper : ((r.nextTrough - r.lastTrough : Int) : Rat) ≠ 0 := by
    have : r.nextTrough - r.lastTrough ≠ 0 := by omega
    exact_mod_cast this
  have hpt : (((r.zeroxDecay - r.zeroxRise : Int) : Rat) + ((r.zeroxRise - r.lastZeroxDecay : Int) : Rat)) ≠ 0 := by
    have : (r.zeroxDecay - r.zeroxRise) + (r.zeroxRise - r.lastZeroxDecay) ≠ 0 := by omega
    exact_mod_cast this
  simp only [Slots.flipShape, Slots.renameShape, Slots.renameSamples, shapeSpecPeak, shapeSpecTrough,
    ShapeRow.mk.injEq, true_and, and_true, ep, el, en]
  refine ⟨?_, ?_, ?_, ?_, ?_, ?_, ?_⟩
  · ring
  · ring
  · ring
  · ring
  · ring
  · rw [F.oneMinus_divRat _ _ hper]; congr 1; push_cast; ring
  · rw [F.oneMinus_divRat _ _ hpt]; congr 1 <;> (push_cast; ring)


/-- `a / p` with integer `0 < a < p` is a finite value strictly between 0 and 1. -/
theorem divRat_strict (a p : Int) (ha : 0 < a) (hap : a < p) :
    ∃ q, F.divRat (a : Rat) (p : Rat) = .fin q ∧ 0 < q ∧ q < 1 := by
  have hp : (0 : Rat) < (p : Rat) := by exact_mod_cast (by omega : (0 : Int) < p)
  have ha' : (0 : Rat) < (a : Rat) := by exact_mod_cast ha
  have hap' : (a : Rat) < (p : Rat) := by exact_mod_cast hap
  refine ⟨(a : Rat) / (p : Rat), ?_, div_pos ha' hp, (div_lt_one hp).2 hap'⟩
  unfold F.divRat
  rw [if_neg (ne_of_gt hp)]

/-- `a / (a + b)` with integer `0 ≤ a`, `0 ≤ b`, `0 < a + b` is a finite value in `[0, 1]`. -/
theorem divRat_weak (a b : Int) (ha : 0 ≤ a) (hb : 0 ≤ b) (hab : 0 < a + b) :
    ∃ q, F.divRat (a : Rat) ((a : Rat) + (b : Rat)) = .fin q ∧ 0 ≤ q ∧ q ≤ 1 := by
  have ha' : (0 : Rat) ≤ (a : Rat) := by exact_mod_cast ha
  have hb' : (0 : Rat) ≤ (b : Rat) := by exact_mod_cast hb
  have hp : (0 : Rat) < (a : Rat) + (b : Rat) := by exact_mod_cast hab
  refine ⟨(a : Rat) / ((a : Rat) + (b : Rat)), ?_, div_nonneg ha' (le_of_lt hp), (div_le_one hp).2 (by linarith)⟩
  unfold F.divRat
  rw [if_neg (ne_of_gt hp)]

theorem slice_eq_range_map (amp : List Rat) (a b : Nat) (hb : b ≤ amp.length) :
    slice amp a b = (List.range (b - a)).map fun j => amp.getD (a + j) 0 := by
  unfold slice
  apply List.ext_getElem
  · simp; omega
  · intro i h1 h2
    have hi : i < b - a := by simpa using h2
    rw [List.getElem_drop, List.getElem_take, List.getElem_map, List.getElem_range,
      getD_of_lt _ _ _ (by omega)]

theorem specBand_window (amp : List Rat) (a b : Nat) (hab : a < b) (hb : b ≤ amp.length) :
    (match meanRat (slice amp a b) with | some m => F.fin m | none => F.nan) =
      .fin (sumRat ((List.range (b - a)).map fun j => amp.getD (a + j) 0) / ((b - a : Nat) : Rat)) := by
  rw [slice_eq_range_map amp a b hb]
  unfold meanRat
  have hne : ((List.range (b - a)).map fun j => amp.getD (a + j) 0).isEmpty = false := by
    cases hk : b - a with
    | zero => omega
    | succ k => simp [List.range_succ_eq_map]
  rw [hne]
  simp

end Bycycle
