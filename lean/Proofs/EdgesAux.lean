import BycycleModel.Edges
import Proofs.Detect
import Proofs.BurstFeatures
/-!
# Auxiliary lemmas for C16 (edge recomputation): the loop of `recompute_edges`

Route: (1) for well-formed labels `edgeOps b` is a left-to-right scan `opsScan 0 b` that emits `(i, next)` at a
rising label change `i → i+1` and `(i+1, last)` at a falling one; (2) the operations of the scan that touch a
given row `c` are `[(c, last)]` if `c` is an end edge followed by `[(c, next)]` if `c` is a start edge;
(3) one `recomputeEdge` reads only the flank voltages and periods (never modified) and writes the value `val`
prescribed by the specification; (4) the monadic fold is a pure fold of `List.modify`s.
-/
namespace Bycycle.EdgesAux
open List

/-! ## the list of operations -/

/-- the change positions of `l`, shifted by `i`. -/
def E (i : Nat) (l : List Bool) : List Nat := (burstEdges l).map (· + i)

theorem E_nil (i : Nat) : E i [] = [] := by simp [E, burstEdges]
theorem E_single (i : Nat) (x : Bool) : E i [x] = [] := by simp [E, burstEdges]

theorem E_cons2 (i : Nat) (x y : Bool) (t : List Bool) :
    E i (x :: y :: t) = (if (y != x) then [i] else []) ++ E (i + 1) (y :: t) := by
  unfold E burstEdges
  have e1 : (x :: y :: t).length - 1 = t.length + 1 := by simp
  have e2 : (y :: t).length - 1 = t.length := by simp
  rw [e1, e2, List.range_succ_eq_map, List.filter_cons, List.filter_map]
  have hf : (fun i => (x :: y :: t).getD (i + 1) false != (x :: y :: t).getD i false) ∘ Nat.succ
      = fun i => (y :: t).getD (i + 1) false != (y :: t).getD i false := by
    funext k; simp
  rw [hf]
  have hm : ∀ L : List Nat, map (fun x => x + i) (map Nat.succ L) = map (fun x => x + (i + 1)) L := by
    intro L; rw [List.map_map]; apply List.map_congr_left; intro a _; simp; omega
  by_cases h : (y != x) = true
  · rw [if_pos (by simpa using h), if_pos h, List.map_cons, hm]; simp
  · rw [if_neg (by simpa using h), if_neg h, hm]; simp

def pairOps (e : List Nat) : List (Nat × Direction) :=
  (onOffPairs e).flatMap fun p => [(p.1, Direction.next), (p.2 + 1, Direction.last)]

theorem pairOps_cons2 (s t : Nat) (r : List Nat) :
    pairOps (s :: t :: r) = (s, .next) :: (t + 1, .last) :: pairOps r := by
  simp [pairOps, onOffPairs]

theorem zip_starts_ends (e : List Nat) (k : Nat) (hk : k % 2 = 0) :
    (((e.zipIdx k).filter fun p => p.2 % 2 == 0).map (·.1)).zip
      (((e.zipIdx k).filter fun p => p.2 % 2 == 1).map (·.1 + 1))
      = (onOffPairs e).map fun p => (p.1, p.2 + 1) := by
  fun_induction onOffPairs e generalizing k with
  | case1 on off rest ih =>
    have h1 : (k + 1) % 2 = 1 := by omega
    have h2 : (k + 1 + 1) % 2 = 0 := by omega
    simp [List.zipIdx_cons, hk, h1, ih (k + 1 + 1) h2]
  | case2 l h =>
    match l, h with
    | [], _ => simp
    | [a], _ => simp [hk]
    | a :: b :: r, h => exact absurd rfl (h a b r)

theorem edgeOps_eq (b : List Bool) : edgeOps b = pairOps (burstEdges b) := by
  unfold edgeOps pairOps
  simp only []
  rw [zip_starts_ends _ 0 rfl, List.flatMap_map]

/-- left-to-right scan: a rising change `i → i+1` makes `i` a start edge, a falling one makes `i+1` an end edge. -/
def opsScan (i : Nat) : List Bool → List (Nat × Direction)
  | x :: y :: t =>
    (if (!x && y) then [(i, Direction.next)] else []) ++
      ((if (x && !y) then [(i + 1, Direction.last)] else []) ++ opsScan (i + 1) (y :: t))
  | _ => []

theorem pairOps_scan (l : List Bool) (i : Nat) (hlast : l.getLastD false = false) :
    (l.headD false = false → pairOps (E i l) = opsScan i l) ∧
    (l.headD false = true → ∀ s, pairOps (s :: E i l) = (s, .next) :: opsScan i l) := by
  induction l generalizing i with
  | nil => simp [E_nil, pairOps, onOffPairs, opsScan]
  | cons x t ih =>
    cases t with
    | nil =>
      simp at hlast
      subst hlast
      simp [E_single, pairOps, onOffPairs, opsScan]
    | cons y t =>
      have hl : (y :: t).getLastD false = false := by
        simpa [List.getLastD_cons] using hlast
      obtain ⟨ih1, ih2⟩ := ih (i + 1) hl
      rw [E_cons2]
      cases x <;> cases y <;> simp only [List.headD_cons] at ih1 ih2 ⊢
      · simp [opsScan, ih1]
      · simp [opsScan, ih2]
      · simp [opsScan, pairOps_cons2, ih1]
      · simp [opsScan, ih2]

theorem edgeOps_eq_scan (b : List Bool) (hwf : labelsWellFormed b) : edgeOps b = opsScan 0 b := by
  rw [edgeOps_eq]
  have := (pairOps_scan b 0 hwf.2).1 hwf.1
  simpa [E] using this

theorem opsScan_bound (l : List Bool) (i : Nat) :
    ∀ op ∈ opsScan i l, op.1 < i + l.length ∧ 2 ≤ l.length := by
  induction l generalizing i with
  | nil => simp [opsScan]
  | cons x t ih =>
    cases t with
    | nil => simp [opsScan]
    | cons y t =>
      intro op hop
      simp only [opsScan, List.mem_append] at hop
      rcases hop with h | h | h
      · split at h
        · simp at h; subst h; simp
        · simp at h
      · split at h
        · simp at h; subst h; simp
        · simp at h
      · have := (ih (i + 1) op h).1
        simp at this ⊢; omega

theorem isStartEdge_cons_succ (x : Bool) (l : List Bool) (j : Nat) :
    isStartEdge (x :: l) (j + 1) = isStartEdge l j := by simp [isStartEdge]
theorem isStartEdge_cons_zero (x y : Bool) (t : List Bool) :
    isStartEdge (x :: y :: t) 0 = (!x && y) := by simp [isStartEdge]
theorem isEndEdge_zero (l : List Bool) : isEndEdge l 0 = false := by simp [isEndEdge]
theorem isEndEdge_cons_one (x y : Bool) (t : List Bool) :
    isEndEdge (x :: y :: t) 1 = (x && !y) := by simp [isEndEdge]
theorem isEndEdge_cons_succ2 (x : Bool) (l : List Bool) (j : Nat) :
    isEndEdge (x :: l) (j + 2) = isEndEdge l (j + 1) := by simp [isEndEdge]

/-- the operations on row `c`, in loop order: the `last` one (if `c` ends a burst) before the `next` one. -/
theorem opsScan_filter (l : List Bool) (i c : Nat) (hc : c < i + l.length) :
    (opsScan i l).filter (fun op => op.1 == c) =
      if c < i then [] else
        (if isEndEdge l (c - i) then [(c, Direction.last)] else []) ++
        (if isStartEdge l (c - i) then [(c, Direction.next)] else []) := by
  induction l generalizing i with
  | nil => simp at hc; simp [opsScan]; omega
  | cons x t ih =>
    cases t with
    | nil =>
      simp at hc
      have : c - i = 0 := by omega
      simp [opsScan, this, isEndEdge_zero, isStartEdge]
    | cons y t =>
      have ih' := ih (i + 1)
      simp only [opsScan, List.filter_append]
      by_cases hci : c < i
      · have h1 : c < i + 1 := by omega
        have h2 : ¬ i = c := by omega
        have h3 : ¬ i + 1 = c := by omega
        rw [ih' (by simp; omega)]
        simp [hci, h1]
        constructor
        · intro _; omega
        · intro _; omega
      · obtain ⟨j, rfl⟩ : ∃ j, c = i + j := ⟨c - i, by omega⟩
        have e : i + j - i = j := by omega
        rw [if_neg hci, e]
        match j with
        | 0 =>
          have h1 : i + 0 < i + 1 := by omega
          rw [ih' (by simp; omega), if_pos h1, isEndEdge_zero, isStartEdge_cons_zero]
          cases x <;> cases y <;> simp
        | 1 =>
          have h1 : ¬ i + 1 < i + 1 := by omega
          have e1 : i + 1 - (i + 1) = 0 := by omega
          rw [ih' (by simp), if_neg h1, e1, isEndEdge_zero, isEndEdge_cons_one, isStartEdge_cons_succ]
          cases x <;> cases y <;> simp
        | j + 2 =>
          have h1 : ¬ i + (j + 2) < i + 1 := by omega
          have e1 : i + (j + 2) - (i + 1) = j + 1 := by omega
          rw [ih' (by simp at hc ⊢; omega), if_neg h1, e1]
          simp only [isEndEdge_cons_succ2, isStartEdge_cons_succ]
          cases x <;> cases y <;> simp

/-! ## the value written by one `recomputeEdge` -/

theorem slice_map {α β} (f : α → β) (l : List α) (a b : Nat) : (slice l a b).map f = slice (l.map f) a b := by
  simp [slice, List.map_drop, List.map_take]

theorem slice_length {α} (l : List α) (a b : Nat) : (slice l a b).length = min b l.length - a := by
  simp [slice]

theorem slice_getD (l : List Rat) (a b k : Nat) (h : a + k < b) : (slice l a b).getD k 0 = l.getD (a + k) 0 := by
  simp [slice, List.getD_eq_getElem?_getD, List.getElem?_drop, h]

/-- locality: the directional amplitude consistency of the middle row of a three-row window is the one of
the corresponding row of the whole table. -/
theorem ampConsSpecDir_local (pc : Bool) (dir : Direction) (R D : List Rat) (c : Nat) (h0 : 0 < c)
    (h1 : c + 1 < R.length) :
    ampConsSpecDir dir (flankSeq pc (slice R (c - 1) (c + 2)) (slice D (c - 1) (c + 2))) 1
      = ampConsSpecDir dir (flankSeq pc R D) c := by
  have hl : (slice R (c - 1) (c + 2)).length = 3 := by rw [slice_length]; omega
  obtain ⟨-, w01⟩ := flankSeq_get pc (slice R (c - 1) (c + 2)) (slice D (c - 1) (c + 2)) 0 (by omega)
  obtain ⟨w10, w11⟩ := flankSeq_get pc (slice R (c - 1) (c + 2)) (slice D (c - 1) (c + 2)) 1 (by omega)
  obtain ⟨w20, -⟩ := flankSeq_get pc (slice R (c - 1) (c + 2)) (slice D (c - 1) (c + 2)) 2 (by omega)
  obtain ⟨-, f01⟩ := flankSeq_get pc R D (c - 1) (by omega)
  obtain ⟨f10, f11⟩ := flankSeq_get pc R D c (by omega)
  obtain ⟨f20, -⟩ := flankSeq_get pc R D (c + 1) (by omega)
  have e1 : 2 * (c - 1) + 1 = 2 * c - 1 := by omega
  have e2 : 2 * (c + 1) = 2 * c + 2 := by omega
  rw [e1] at f01
  rw [e2] at f20
  have s0 : ∀ l : List Rat, (slice l (c - 1) (c + 2)).getD 0 0 = l.getD (c - 1) 0 := by
    intro l; rw [slice_getD l _ _ 0 (by omega)]; rfl
  have s1 : ∀ l : List Rat, (slice l (c - 1) (c + 2)).getD 1 0 = l.getD c 0 := by
    intro l; rw [slice_getD l _ _ 1 (by omega)]; congr 1; omega
  have s2 : ∀ l : List Rat, (slice l (c - 1) (c + 2)).getD 2 0 = l.getD (c + 1) 0 := by
    intro l; rw [slice_getD l _ _ 2 (by omega)]; congr 1; omega
  simp only [s0, s1, s2] at w01 w10 w11 w20
  unfold ampConsSpecDir
  simp only [Nat.mul_one, Nat.mul_zero, Nat.zero_add] at w01 w10 w11 w20 ⊢
  have e3 : 2 + 2 = 2 * 2 := rfl
  have e4 : 2 - 1 = 0 + 1 := rfl
  rw [e3, e4, w01, w10, w11, w20, f01, f10, f11, f20]

theorem range_map_get1 {α} (f : Nat → α) (m : Nat) (hm : 2 ≤ m) : ((List.range m).map f)[1]? = some (f 1) := by
  simp [show 1 < m by omega]

theorem amp_window (pc : Bool) (dir : Direction) (R D : List Rat) (c : Nat) (hRD : R.length = D.length)
    (hc : c < R.length) (h2 : 2 ≤ R.length) :
    ∃ L, ampConsistency pc dir (slice R (c - 1) (min (c + 2) R.length)) (slice D (c - 1) (min (c + 2) R.length)) = .ok L ∧
      L[1]? = some (if c = 0 ∨ c + 1 = R.length then F.nan else ampConsSpecDir dir (flankSeq pc R D) c) := by
  have hl : (slice R (c - 1) (min (c + 2) R.length)).length = min (c + 2) R.length - (c - 1) := by
    rw [slice_length]; congr 1; omega
  have hl' : (slice D (c - 1) (min (c + 2) R.length)).length = min (c + 2) R.length - (c - 1) := by
    rw [slice_length, ← hRD]; congr 1; omega
  refine ⟨_, ampConsistency_dir_eq_spec pc dir _ _ (by rw [hl, hl']) (by rw [hl]; omega), ?_⟩
  rw [range_map_get1 _ _ (by rw [hl]; omega), hl]
  congr 1
  by_cases hb : c = 0 ∨ c + 1 = R.length
  · have : 1 + 1 = min (c + 2) R.length - (c - 1) := by omega
    simp [hb, this]
  · have h0 : 0 < c := by omega
    have h1 : c + 1 < R.length := by omega
    have : ¬ (1 + 1 = min (c + 2) R.length - (c - 1)) := by omega
    have hm : min (c + 2) R.length = c + 2 := by omega
    rw [if_neg hb, if_neg (by simp; omega), hm]
    exact ampConsSpecDir_local pc dir R D c h0 h1

/-- the directional period consistency at an interior row. -/
def perVal (dir : Direction) (P : List Rat) (c : Nat) : F :=
  let last := ratioMinMax (P.getD c 0) (P.getD (c - 1) 0)
  let next := ratioMinMax (P.getD (c + 1) 0) (P.getD c 0)
  match dir with
  | .next => next
  | .last => last
  | .both => match last, next with
    | .nan, _ => .nan | _, .nan => .nan
    | a, b => if b.ltB a then b else a

theorem per_window (dir : Direction) (P : List Rat) (c : Nat) (hc : c < P.length) (h2 : 2 ≤ P.length) :
    ∃ L, periodConsistency dir (slice P (c - 1) (min (c + 2) P.length)) = .ok L ∧
      L[1]? = some (if c = 0 ∨ c + 1 = P.length then F.nan else perVal dir P c) := by
  have hl : (slice P (c - 1) (min (c + 2) P.length)).length = min (c + 2) P.length - (c - 1) := by
    rw [slice_length]; congr 1; omega
  unfold periodConsistency
  simp only []
  rw [if_neg (by rw [hl]; omega)]
  refine ⟨_, rfl, ?_⟩
  rw [range_map_get1 _ _ (by rw [hl]; omega), hl]
  congr 1
  by_cases hb : c = 0 ∨ c + 1 = P.length
  · have : 1 + 1 = min (c + 2) P.length - (c - 1) := by omega
    simp [hb, this]
  · have h0 : 0 < c := by omega
    have h1 : c + 1 < P.length := by omega
    have hm : min (c + 2) P.length = c + 2 := by omega
    rw [if_neg hb, if_neg (by simp; omega), hm]
    have s0 : (slice P (c - 1) (c + 2)).getD 0 0 = P.getD (c - 1) 0 := by
      rw [slice_getD P _ _ 0 (by omega)]; rfl
    have s1 : (slice P (c - 1) (c + 2)).getD 1 0 = P.getD c 0 := by
      rw [slice_getD P _ _ 1 (by omega)]; congr 1; omega
    have s2 : (slice P (c - 1) (c + 2)).getD 2 0 = P.getD (c + 1) 0 := by
      rw [slice_getD P _ _ 2 (by omega)]; congr 1; omega
    rw [BurstAux.atOff_zero, BurstAux.atOff_one, BurstAux.atOff_neg_one, s1, s2]
    have : (slice P (c - 1) (c + 2)).getD (1 - 1) 0 = P.getD (c - 1) 0 := s0
    rw [this]
    rfl

def upd (v : F × F) (r : EdgeRow) : EdgeRow := { r with ampCons := v.1, perCons := v.2 }

/-- the pair of values the specification prescribes for cycle `c` and direction `dir`. -/
def val (pc : Bool) (rows : List EdgeRow) (c : Nat) (dir : Direction) : F × F :=
  if c = 0 ∨ c + 1 = rows.length then (F.nan, F.nan)
  else (ampConsSpecDir dir (flankSeq pc (rows.map (·.voltRise)) (rows.map (·.voltDecay))) c,
        perVal dir (rows.map (·.period)) c)

theorem recomputeEdge_eq (pc : Bool) (rows acc : List EdgeRow) (c : Nat) (dir : Direction)
    (hR : acc.map (·.voltRise) = rows.map (·.voltRise)) (hD : acc.map (·.voltDecay) = rows.map (·.voltDecay))
    (hP : acc.map (·.period) = rows.map (·.period)) (hc : c < rows.length) (h2 : 2 ≤ rows.length) :
    recomputeEdge pc acc c dir = .ok (acc.modify c (upd (val pc rows c dir))) := by
  have hlen : acc.length = rows.length := by
    have := congrArg List.length hR; simpa using this
  obtain ⟨L1, hL1, hg1⟩ := amp_window pc dir (rows.map (·.voltRise)) (rows.map (·.voltDecay)) c (by simp)
    (by simpa using hc) (by simpa using h2)
  obtain ⟨L2, hL2, hg2⟩ := per_window dir (rows.map (·.period)) c (by simpa using hc) (by simpa using h2)
  simp only [List.length_map] at hL1 hL2 hg1 hg2
  have hca : c < acc.length := by omega
  unfold recomputeEdge
  simp only [slice_map, hR, hD, hP, hlen, hL1, hL2, bind, Except.bind, hg1, hg2, List.getElem?_eq_getElem hca]
  rw [List.modify_eq_set_getElem?, List.getElem?_eq_getElem hca]
  simp only [Option.map_eq_map, Option.map_some, Option.getD_some]
  congr 2
  unfold upd val
  by_cases hb : c = 0 ∨ c + 1 = rows.length <;> simp [hb]

theorem frame_modify {β} (f : EdgeRow → β) (v : F × F) (acc : List EdgeRow) (c : Nat)
    (hf : ∀ r, f (upd v r) = f r) : (acc.modify c (upd v)).map f = acc.map f := by
  apply List.ext_getElem?
  intro j
  rw [List.getElem?_map, List.getElem?_map, List.getElem?_modify]
  cases acc[j]? with
  | none => rfl
  | some r => by_cases h : c = j <;> simp [h, hf]

/-- the pure loop. -/
def applyOps (pc : Bool) (rows : List EdgeRow) (ops : List (Nat × Direction)) (acc : List EdgeRow) : List EdgeRow :=
  ops.foldl (fun acc op => acc.modify op.1 (upd (val pc rows op.1 op.2))) acc

theorem foldlM_eq (pc : Bool) (rows : List EdgeRow) (ops : List (Nat × Direction)) (acc : List EdgeRow)
    (hops : ∀ op ∈ ops, op.1 < rows.length ∧ 2 ≤ rows.length)
    (hR : acc.map (·.voltRise) = rows.map (·.voltRise)) (hD : acc.map (·.voltDecay) = rows.map (·.voltDecay))
    (hP : acc.map (·.period) = rows.map (·.period)) :
    ops.foldlM (fun acc (op : Nat × Direction) => recomputeEdge pc acc op.1 op.2) acc
      = .ok (applyOps pc rows ops acc) := by
  induction ops generalizing acc with
  | nil => rfl
  | cons op ops ih =>
    obtain ⟨h1, h2⟩ := hops op (by simp)
    rw [List.foldlM_cons, recomputeEdge_eq pc rows acc op.1 op.2 hR hD hP h1 h2]
    show List.foldlM _ _ ops = _
    rw [ih _ (fun o ho => hops o (by simp [ho]))
      (by rw [frame_modify _ _ _ _ (fun _ => rfl), hR]) (by rw [frame_modify _ _ _ _ (fun _ => rfl), hD])
      (by rw [frame_modify _ _ _ _ (fun _ => rfl), hP])]
    rfl

theorem applyOps_get (pc : Bool) (rows : List EdgeRow) (ops : List (Nat × Direction)) (acc : List EdgeRow) (c : Nat) :
    (applyOps pc rows ops acc)[c]? =
      acc[c]?.map fun r => (ops.filter fun op => op.1 == c).foldl (fun r op => upd (val pc rows op.1 op.2) r) r := by
  induction ops generalizing acc with
  | nil => simp [applyOps]
  | cons op ops ih =>
    have : applyOps pc rows (op :: ops) acc = applyOps pc rows ops (acc.modify op.1 (upd (val pc rows op.1 op.2))) := rfl
    rw [this, ih, List.getElem?_modify, List.filter_cons]
    cases acc[c]? with
    | none => rfl
    | some r =>
      by_cases h : op.1 = c
      · simp [h]
      · simp [h]

end Bycycle.EdgesAux
