import BycycleModel.Detect
import Proofs.Runs
/-!
# Helper lemmas for C06 / C07 (burst labelling)
-/
namespace Bycycle

theorem maskLe_trans {a b c : List Bool} (h1 : maskLe a b) (h2 : maskLe b c) : maskLe a c :=
  ⟨h1.1.trans h2.1, fun i hi => h2.2 i (h1.2 i hi)⟩

theorem minRunSpec_antitone_mono (m m' : List Bool) (k k' : Rat) (hm : maskLe m' m) (hk : k ≤ k') :
    maskLe (minRunSpec m' k') (minRunSpec m k) := by
  rw [← minRun_eq_spec, ← minRun_eq_spec]
  exact maskLe_trans (minRun_mono m' m k' hm) (minRun_antitone m k k' hk)

theorem paramInRange_iff (x lo hi : Rat) : paramInRange x lo hi = true ↔ lo ≤ x ∧ x ≤ hi := by
  simp [paramInRange, not_lt]

theorem paramInRange_not (x lo hi : Rat) : (!(paramInRange x lo hi)) = true ↔ (x < lo ∨ hi < x) := by
  simp [paramInRange]

theorem qualMask_length (rows : List CycRow) (th : CycThresh) : (qualMask rows th).length = rows.length := by
  simp [qualMask]

theorem qualifies_lt {rows : List CycRow} {th : CycThresh} {i : Nat} (h : qualifies rows th i = true) :
    0 < i ∧ i + 1 < rows.length := by
  unfold qualifies at h
  split at h
  · simp at h
  · simp at h; exact ⟨h.1.1.1.1.1, h.1.1.1.1.2⟩

theorem qualMask_getD (rows : List CycRow) (th : CycThresh) (i : Nat) :
    (qualMask rows th).getD i false = qualifies rows th i := by
  unfold qualMask
  rw [List.getD_eq_getElem?_getD]
  by_cases h : i < rows.length
  · simp [h]
  · simp [qualifies, h]

theorem cycRowPasses_eq (r : CycRow) (th : CycThresh) :
    cycRowPasses r th =
      ((match r.ampFraction with | some v => decide (th.ampFraction < v) | none => false) &&
      (match r.ampConsistency with | some v => decide (th.ampConsistency < v) | none => false) &&
      (match r.periodConsistency with | some v => decide (th.periodConsistency < v) | none => false) &&
      (match r.monotonicity with | some v => decide (th.monotonicity < v) | none => false)) := by
  unfold cycRowPasses
  simp only [Slots.cyclesConjAll, Slots.cyclesCmpAmpFraction, Slots.cyclesCmpAmpConsistency,
    Slots.cyclesCmpPeriodConsistency, Slots.cyclesCmpMonotonicity, if_true]
  cases r.ampFraction <;> cases r.ampConsistency <;> cases r.periodConsistency <;>
    cases r.monotonicity <;> simp [Cmp.evalOpt, Cmp.evalRat]

theorem qualifies_eq (rows : List CycRow) (th : CycThresh) (i : Nat) (h : i < rows.length) :
    qualifies rows th i = (decide (0 < i) && decide (i + 1 < rows.length) && cycRowPasses rows[i] th) := by
  unfold qualifies
  rw [List.getElem?_eq_getElem h, cycRowPasses_eq]
  simp only [Bool.and_assoc]
  rfl

theorem setPyIdx_neg_one (m : List Bool) (h : m ≠ []) (v : Bool) :
    setPyIdx m (-1) v = m.set (m.length - 1) v := by
  have hl : 0 < m.length := List.length_pos_iff.mpr h
  unfold setPyIdx
  simp only []
  rw [if_pos (by omega), if_pos (by omega)]
  congr 1; omega

theorem setPyIdx_zero (m : List Bool) (h : m ≠ []) (v : Bool) :
    setPyIdx m 0 v = m.set 0 v := by
  have hl : 0 < m.length := List.length_pos_iff.mpr h
  unfold setPyIdx
  simp only []
  simp [hl]

theorem forced_eq (m : List Bool) (h : m ≠ []) :
    Slots.cyclesForcedFalse.foldl (fun m i => setPyIdx m i false) m
      = (m.set (m.length - 1) false).set 0 false := by
  simp only [Slots.cyclesForcedFalse, List.foldl_cons, List.foldl_nil]
  rw [setPyIdx_neg_one m h, setPyIdx_zero]
  intro h'
  apply h
  have := congrArg List.length h'
  simp at this
  exact this

theorem forced_mask_eq (rows : List CycRow) (th : CycThresh) (h : rows ≠ []) :
    Slots.cyclesForcedFalse.foldl (fun m i => setPyIdx m i false) (rows.map fun r => cycRowPasses r th)
      = qualMask rows th := by
  rw [forced_eq _ (by simpa using h)]
  apply List.ext_getElem
  · simp [qualMask]
  · intro i h1 h2
    simp only [List.length_set, List.length_map] at h1
    simp only [qualMask, List.getElem_map, List.getElem_range, List.getElem_set, List.length_map]
    rw [qualifies_eq rows th i h1]
    by_cases h0 : 0 = i
    · subst h0; simp
    · by_cases hn : rows.length - 1 = i
      · have : ¬ (i + 1 < rows.length) := by omega
        simp [h0, hn, this]
      · have h3 : i + 1 < rows.length := by omega
        have h4 : 0 < i := by omega
        simp [h0, hn, h3, h4]


theorem detectCycles_valid (rows : List CycRow) (th : CycThresh) (hv : th.valid) :
    detectCycles rows th =
      checkMinBurstCycles (if rows = [] then [] else qualMask rows th) th.minN := by
  obtain ⟨h1, h2, h3, h4, h5, h6, h7, h8⟩ := hv
  have p1 := (paramInRange_iff th.ampFraction 0 1).mpr ⟨h1, h2⟩
  have p2 := (paramInRange_iff th.ampConsistency 0 1).mpr ⟨h3, h4⟩
  have p3 := (paramInRange_iff th.periodConsistency 0 1).mpr ⟨h5, h6⟩
  have p4 := (paramInRange_iff th.monotonicity 0 1).mpr ⟨h7, h8⟩
  unfold detectCycles
  simp only [p1, p2, p3, p4, Bool.not_true, Bool.false_eq_true, if_false]
  by_cases hr : rows = []
  · subst hr; simp
  · have : (rows.map fun r => cycRowPasses r th).isEmpty = false := by
      cases rows with
      | nil => exact absurd rfl hr
      | cons a b => rfl
    simp only [this, Bool.false_eq_true, if_false, hr]
    rw [forced_mask_eq rows th hr]

theorem detectCycles_eq_spec (rows : List CycRow) (th : CycThresh) (hv : th.valid) (hk : rows = [] ∨ 0 ≤ th.minN) :
    detectCycles rows th = .ok (cyclesSpec rows th) := by
  rw [detectCycles_valid rows th hv, checkMin_spec]
  by_cases hr : rows = []
  · subst hr; simp [cyclesSpec, qualMask, minRunSpec]
  · have hk' : ¬ th.minN < 0 := by
      rcases hk with h | h
      · exact absurd h hr
      · exact not_lt.mpr h
    have hq : qualMask rows th ≠ [] := by
      intro h
      have := congrArg List.length h
      rw [qualMask_length] at this
      exact hr (List.eq_nil_of_length_eq_zero this)
    simp only [hr, if_false, hq, hk']
    rfl

theorem cyclesSpec_length (rows : List CycRow) (th : CycThresh) : (cyclesSpec rows th).length = rows.length := by
  simp [cyclesSpec, minRunSpec, qualMask]

theorem cyclesSpec_getD (rows : List CycRow) (th : CycThresh) (i : Nat) :
    (cyclesSpec rows th).getD i false =
      (qualifies rows th i && decide (th.minN ≤ ((runLenAt (qualMask rows th) i : Nat) : Rat))) := by
  unfold cyclesSpec
  rw [spec_getD, qualMask_getD]

theorem cyclesSpec_sound (rows : List CycRow) (th : CycThresh) (i : Nat)
    (h : (cyclesSpec rows th).getD i false = true) :
    qualifies rows th i = true ∧ th.minN ≤ ((runLenAt (qualMask rows th) i : Nat) : Rat) := by
  rw [cyclesSpec_getD] at h
  simpa using h

theorem cyclesSpec_complete (rows : List CycRow) (th : CycThresh) (i : Nat)
    (hq : qualifies rows th i = true) (hr : th.minN ≤ ((runLenAt (qualMask rows th) i : Nat) : Rat)) :
    (cyclesSpec rows th).getD i false = true := by
  rw [cyclesSpec_getD, hq]
  simpa using hr

theorem qualifies_false_of_not_interior (rows : List CycRow) (th : CycThresh) (i : Nat)
    (h : ¬ (0 < i ∧ i + 1 < rows.length)) : qualifies rows th i = false := by
  cases hq : qualifies rows th i with
  | false => rfl
  | true => exact absurd (qualifies_lt hq) h

theorem cyclesSpec_ends (rows : List CycRow) (th : CycThresh) :
    (cyclesSpec rows th).getD 0 false = false ∧ (cyclesSpec rows th).getD (rows.length - 1) false = false := by
  rw [cyclesSpec_getD, cyclesSpec_getD,
    qualifies_false_of_not_interior rows th 0 (by omega),
    qualifies_false_of_not_interior rows th (rows.length - 1) (by omega)]
  simp

theorem cyclesSpec_strict (rows : List CycRow) (th : CycThresh) (i : Nat) (r : CycRow) (hr : rows[i]? = some r)
    (h : r.ampFraction = some th.ampFraction ∨ r.ampConsistency = some th.ampConsistency ∨
         r.periodConsistency = some th.periodConsistency ∨ r.monotonicity = some th.monotonicity ∨
         r.ampFraction = none ∨ r.ampConsistency = none ∨ r.periodConsistency = none ∨ r.monotonicity = none) :
    (cyclesSpec rows th).getD i false = false := by
  have hq : qualifies rows th i = false := by
    unfold qualifies
    rw [hr]
    rcases h with h | h | h | h | h | h | h | h <;> simp [h]
  rw [cyclesSpec_getD, hq]
  rfl

theorem qualifies_antitone (rows : List CycRow) (a b : CycThresh) (h : a.le b) (i : Nat)
    (hq : qualifies rows b i = true) : qualifies rows a i = true := by
  obtain ⟨h1, h2, h3, h4, _⟩ := h
  unfold qualifies at hq ⊢
  cases hr : rows[i]? with
  | none => rw [hr] at hq; simp at hq
  | some r =>
    rw [hr] at hq
    simp only [Bool.and_eq_true, decide_eq_true_eq] at hq ⊢
    obtain ⟨⟨⟨⟨⟨q1, q2⟩, q3⟩, q4⟩, q5⟩, q6⟩ := hq
    refine ⟨⟨⟨⟨⟨q1, q2⟩, ?_⟩, ?_⟩, ?_⟩, ?_⟩
    · cases hf : r.ampFraction with
      | none => rw [hf] at q3; simp at q3
      | some v => rw [hf] at q3; simp at q3 ⊢; exact lt_of_le_of_lt h1 q3
    · cases hf : r.ampConsistency with
      | none => rw [hf] at q4; simp at q4
      | some v => rw [hf] at q4; simp at q4 ⊢; exact lt_of_le_of_lt h2 q4
    · cases hf : r.periodConsistency with
      | none => rw [hf] at q5; simp at q5
      | some v => rw [hf] at q5; simp at q5 ⊢; exact lt_of_le_of_lt h3 q5
    · cases hf : r.monotonicity with
      | none => rw [hf] at q6; simp at q6
      | some v => rw [hf] at q6; simp at q6 ⊢; exact lt_of_le_of_lt h4 q6

theorem cyclesSpec_antitone (rows : List CycRow) (a b : CycThresh) (h : a.le b) :
    maskLe (cyclesSpec rows b) (cyclesSpec rows a) := by
  unfold cyclesSpec
  apply minRunSpec_antitone_mono
  · refine ⟨by rw [qualMask_length, qualMask_length], ?_⟩
    intro i hi
    rw [qualMask_getD] at hi ⊢
    exact qualifies_antitone rows a b h i hi
  · exact h.2.2.2.2

theorem detectCycles_rejects (rows : List CycRow) (th : CycThresh) (h : ¬ th.valid) :
    detectCycles rows th = .error .valueError := by
  unfold detectCycles
  split
  · rfl
  split
  · rfl
  split
  · rfl
  split
  · rfl
  rename_i h1 h2 h3 h4
  exfalso
  apply h
  simp only [Bool.not_eq_true, Bool.not_eq_false', paramInRange_iff] at h1 h2 h3 h4
  exact ⟨h1.1, h1.2, h2.1, h2.2, h3.1, h3.2, h4.1, h4.2⟩

theorem detectCycles_rejects_minN (rows : List CycRow) (th : CycThresh) (hv : th.valid) (hne : rows ≠ [])
    (hk : th.minN < 0) : detectCycles rows th = .error .valueError := by
  rw [detectCycles_valid rows th hv, checkMin_spec]
  have hq : qualMask rows th ≠ [] := by
    intro h
    have := congrArg List.length h
    rw [qualMask_length] at this
    exact hne (List.eq_nil_of_length_eq_zero this)
  simp only [hne, if_false, hq, hk, if_true]


/-! ### C07 -/

theorem foldl_add_ind (s : List Bool) (a : Rat) :
    (s.map fun b => if b then (1 : Rat) else 0).foldl (· + ·) a = a + ((s.filter id).length : Rat) := by
  induction s generalizing a with
  | nil => simp
  | cons b bs ih =>
    cases b with
    | false => simpa using ih a
    | true =>
      simp only [List.map_cons, List.foldl_cons, if_true, ih, List.filter_cons, id, if_true,
        List.length_cons]
      push_cast
      rw [add_assoc, add_comm 1]

theorem sumRat_ind (s : List Bool) :
    sumRat (s.map fun b => if b then (1 : Rat) else 0) = ((s.filter id).length : Rat) := by
  unfold sumRat
  rw [foldl_add_ind]; simp

theorem filter_range_lt (a c : Nat) : (List.range a).filter (fun j => decide (j < c)) = List.range (min a c) := by
  induction a with
  | zero => simp
  | succ a ih =>
    rw [List.range_succ, List.filter_append, ih]
    by_cases h : a < c
    · have : min (a + 1) c = min a c + 1 := by omega
      rw [this, List.range_succ]
      have : min a c = a := by omega
      simp [h, this]
    · have : min (a + 1) c = min a c := by omega
      rw [this]; simp [h]

theorem window_eq (mask : List Bool) (l n : Nat) :
    ((List.range (n + 1 - l)).filter fun j => decide (l + j < mask.length))
      = List.range (min (n + 1) mask.length - l) := by
  have : (fun j => decide (l + j < mask.length)) = fun j => decide (j < mask.length - l) := by
    funext j; congr 1; apply propext; omega
  rw [this, filter_range_lt]
  congr 1; omega

theorem slice_eq_map (mask : List Bool) (l n : Nat) :
    slice mask l (n + 1) = (List.range (min (n + 1) mask.length - l)).map fun j => mask.getD (l + j) false := by
  unfold slice
  apply List.ext_getElem
  · simp
  · intro i h1 h2
    simp only [List.length_drop, List.length_take] at h1
    simp only [List.getElem_drop, List.getElem_take, List.getElem_map, List.getElem_range]
    rw [List.getD_eq_getElem?_getD, List.getElem?_eq_getElem (by omega)]
    rfl

theorem burstFraction_one (mask : List Bool) (l n : Nat) :
    meanRat ((slice mask l (n + 1)).map fun b => if b then (1 : Rat) else 0) = burstFractionSpec mask l n := by
  unfold meanRat burstFractionSpec
  simp only [window_eq]
  rw [sumRat_ind, slice_eq_map]
  by_cases h : min (n + 1) mask.length - l = 0
  · simp [h]
  · have h1 : (List.range (min (n + 1) mask.length - l)).isEmpty = false := by
      simp [h]
    have h2 : (List.map (fun b => if b = true then (1:Rat) else 0)
        (List.map (fun j => mask.getD (l + j) false) (List.range (min (n + 1) mask.length - l)))).isEmpty = false := by
      simp [h]
    rw [h1, h2]
    simp only [Bool.false_eq_true, if_false, List.length_map, List.length_range]
    congr 3
    rw [List.filter_map, List.length_map]
    rfl

theorem burstFraction_eq_spec (mask : List Bool) (sides : List (Nat × Nat)) :
    burstFraction mask sides = sides.map fun p => burstFractionSpec mask p.1 p.2 := by
  unfold burstFraction
  apply List.map_congr_left
  intro p _
  exact burstFraction_one mask p.1 p.2

theorem burstFractionSpec_inside (mask : List Bool) (l n : Nat) (hln : l ≤ n) (hn : n < mask.length) :
    burstFractionSpec mask l n =
      some ((((List.range (n + 1 - l)).filter fun j => mask.getD (l + j) false).length : Rat) / ((n + 1 - l : Nat) : Rat)) := by
  unfold burstFractionSpec
  simp only [window_eq]
  have e : min (n + 1) mask.length - l = n + 1 - l := by omega
  rw [e]
  have h1 : (List.range (n + 1 - l)).isEmpty = false := by
    have : n + 1 - l ≠ 0 := by omega
    simp [this]
  rw [h1]
  simp

theorem burstFractionSpec_range (mask : List Bool) (l n : Nat) (v : Rat) (h : burstFractionSpec mask l n = some v) :
    0 ≤ v ∧ v ≤ 1 := by
  unfold burstFractionSpec at h
  simp only [] at h
  split at h
  · simp at h
  · rename_i hw
    injection h with h
    subst h
    generalize ((List.range (n + 1 - l)).filter fun j => decide (l + j < mask.length)) = w at hw ⊢
    have hpos : (0 : Rat) < (w.length : Rat) := by
      have : 0 < w.length := by
        cases w with
        | nil => simp at hw
        | cons a b => simp
      exact_mod_cast this
    have hle : (((w.filter fun j => mask.getD (l + j) false).length : Nat) : Rat) ≤ (w.length : Rat) := by
      exact_mod_cast List.length_filter_le _ _
    constructor
    · exact div_nonneg (by exact_mod_cast Nat.zero_le _) (le_of_lt hpos)
    · exact (div_le_one₀ hpos).mpr hle

theorem ampMask_eq (fracs : List (Option Rat)) (thr : Rat) :
    (fracs.map fun f => Slots.ampCmp.evalOpt f thr)
      = fracs.map fun f => match f with | some v => decide (thr ≤ v) | none => false := by
  apply List.map_congr_left
  intro f _
  cases f <;> simp [Slots.ampCmp, Cmp.evalOpt, Cmp.evalRat]

theorem detectAmp_eq_spec (fracs : List (Option Rat)) (thr minN : Rat) (h0 : 0 ≤ thr) (h1 : thr ≤ 1)
    (hk : fracs = [] ∨ 0 ≤ minN) : detectAmp fracs thr minN = .ok (ampSpec fracs thr minN) := by
  unfold detectAmp ampSpec
  have p := (paramInRange_iff thr 0 1).mpr ⟨h0, h1⟩
  simp only [p, Bool.not_true, Bool.false_eq_true, if_false]
  rw [ampMask_eq, checkMin_spec]
  by_cases hr : fracs = []
  · subst hr; simp [minRunSpec]
  · have hk' : ¬ minN < 0 := by
      rcases hk with h | h
      · exact absurd h hr
      · exact not_lt.mpr h
    simp only [List.map_eq_nil_iff, hr, hk', if_false]
    rfl

theorem ampSpec_getD (fracs : List (Option Rat)) (thr minN : Rat) (i : Nat) :
    (ampSpec fracs thr minN).getD i false =
      ((match fracs[i]? with | some (some v) => decide (thr ≤ v) | _ => false) &&
        decide (minN ≤ ((runLenAt (fracs.map fun f => match f with | some v => decide (thr ≤ v) | none => false) i : Nat) : Rat))) := by
  unfold ampSpec
  rw [spec_getD]
  congr 1
  rw [List.getD_eq_getElem?_getD, List.getElem?_map]
  rcases fracs[i]? with _ | _ | v <;> rfl

theorem reconcileMinN_spec (b t : Option Rat) :
    (reconcileMinN b t).1 = (reconcileMinN b t).2 ∧ (reconcileMinN b t).1 = b.getD (t.getD 3) := by
  cases b <;> cases t <;> simp [reconcileMinN, Slots.reconcileDefaultMinN, Slots.ampDefaultMinN]

theorem ampSpec_antitone (fracs : List (Option Rat)) (thr thr' minN minN' : Rat) (h : thr ≤ thr') (hk : minN ≤ minN') :
    maskLe (ampSpec fracs thr' minN') (ampSpec fracs thr minN) := by
  unfold ampSpec
  apply minRunSpec_antitone_mono _ _ _ _ _ hk
  refine ⟨by simp, ?_⟩
  intro i hi
  rw [List.getD_eq_getElem?_getD, List.getElem?_map] at hi ⊢
  generalize fracs[i]? = o at hi ⊢
  rcases o with _ | _ | v
  · simp at hi
  · simp at hi
  · simp at hi ⊢; exact le_trans h hi

theorem detectAmp_rejects (fracs : List (Option Rat)) (thr minN : Rat) (h : thr < 0 ∨ 1 < thr) :
    detectAmp fracs thr minN = .error .valueError := by
  unfold detectAmp
  rw [if_pos ((paramInRange_not thr 0 1).mpr h)]

theorem burstFractionGuard_spec (fs lo hi : Rat) :
    burstFractionGuard fs lo hi = (if fs < 0 ∨ lo < 0 ∨ hi < lo then .error .valueError else .ok ()) := by
  unfold burstFractionGuard
  by_cases h1 : fs < 0
  · simp [h1]
  · by_cases h2 : lo < 0
    · simp [h1, h2, paramInRange]
    · by_cases h3 : hi < lo
      · simp [h1, h3]
      · simp [h1, h2, h3, paramInRange]

end Bycycle
