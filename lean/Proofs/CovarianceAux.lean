import BycycleModel.Covariance
import Proofs.BurstFeatures
import Mathlib.Tactic.Linarith
import Mathlib.Tactic.Ring
import Mathlib.Tactic.FieldSimp
import Mathlib.Algebra.Order.Field.Basic
/-!
# Proofs of the helper lemmas for C09 (mirror) and C10 (unit covariance)
-/
namespace Bycycle.CovAux
open Bycycle

/-! ### elementary facts on scaling by a positive constant -/

theorem scaleSig_nil (a : Rat) : scaleSig a [] = [] := rfl
theorem scaleSig_cons (a x : Rat) (l : List Rat) : scaleSig a (x :: l) = (a * x) :: scaleSig a l := rfl
theorem scaleSig_length (a : Rat) (l : List Rat) : (scaleSig a l).length = l.length := by simp [scaleSig]
theorem scaleSig_append (a : Rat) (l m : List Rat) : scaleSig a (l ++ m) = scaleSig a l ++ scaleSig a m := by
  simp [scaleSig]
theorem scaleSig_replicate_zero (a : Rat) (n : Nat) : scaleSig a (List.replicate n 0) = List.replicate n 0 := by
  simp [scaleSig]
theorem scaleSig_isEmpty (a : Rat) (l : List Rat) : (scaleSig a l).isEmpty = l.isEmpty := by
  cases l <;> rfl

theorem lt_scale {a : Rat} (ha : 0 < a) (x y : Rat) : a * x < a * y ↔ x < y := mul_lt_mul_iff_right₀ ha
theorem le_scale {a : Rat} (ha : 0 < a) (x y : Rat) : a * x ≤ a * y ↔ x ≤ y := mul_le_mul_iff_right₀ ha
theorem eq_scale {a : Rat} (ha : 0 < a) (x y : Rat) : a * x = a * y ↔ x = y :=
  ⟨fun h => mul_left_cancel₀ (ne_of_gt ha) h, fun h => by rw [h]⟩
theorem eq_zero_scale {a : Rat} (ha : 0 < a) (x : Rat) : a * x = 0 ↔ x = 0 := by
  constructor
  · intro h
    rcases mul_eq_zero.1 h with h | h
    · exact absurd h (ne_of_gt ha)
    · exact h
  · intro h; rw [h, mul_zero]

theorem slice_scale (a : Rat) (l : List Rat) (s e : Nat) : slice (scaleSig a l) s e = scaleSig a (slice l s e) := by
  simp [slice, scaleSig, List.map_take, List.map_drop]

/-! ### arg-extrema -/

theorem argmax_go_scale (a : Rat) (ha : 0 < a) (l : List Rat) (best : Rat) (bi i : Nat) :
    argmaxFirst.go (a * best) bi i (scaleSig a l) = argmaxFirst.go best bi i l := by
  induction l generalizing best bi i with
  | nil => rfl
  | cons y ys ih =>
    rw [scaleSig_cons]
    simp only [argmaxFirst.go, lt_scale ha]
    split <;> exact ih ..

theorem argmin_go_scale (a : Rat) (ha : 0 < a) (l : List Rat) (best : Rat) (bi i : Nat) :
    argminFirst.go (a * best) bi i (scaleSig a l) = argminFirst.go best bi i l := by
  induction l generalizing best bi i with
  | nil => rfl
  | cons y ys ih =>
    rw [scaleSig_cons]
    simp only [argminFirst.go, lt_scale ha]
    split <;> exact ih ..

theorem argmaxFirst_scale (a : Rat) (ha : 0 < a) (l : List Rat) : argmaxFirst (scaleSig a l) = argmaxFirst l := by
  cases l with
  | nil => rfl
  | cons x xs =>
    rw [scaleSig_cons]
    simp only [argmaxFirst]
    rw [argmax_go_scale a ha]

theorem argminFirst_scale (a : Rat) (ha : 0 < a) (l : List Rat) : argminFirst (scaleSig a l) = argminFirst l := by
  cases l with
  | nil => rfl
  | cons x xs =>
    rw [scaleSig_cons]
    simp only [argminFirst]
    rw [argmin_go_scale a ha]

/-! ### flank midpoints -/

theorem headD_scale (a : Rat) (l : List Rat) : (scaleSig a l).headD 0 = a * l.headD 0 := by
  cases l <;> simp [scaleSig]

theorem getLastD_scale (a : Rat) (l : List Rat) : (scaleSig a l).getLastD 0 = a * l.getLastD 0 := by
  unfold scaleSig
  rw [List.getLastD_eq_getLast?, List.getLastD_eq_getLast?, List.getLast?_map]
  cases l.getLast? <;> simp

theorem all_zero_scale (a : Rat) (ha : 0 < a) (l : List Rat) :
    (scaleSig a l).all (· == 0) = l.all (· == 0) := by
  unfold scaleSig
  rw [List.all_map]
  congr 1
  funext x
  simp [eq_zero_scale ha]

theorem flankPos_scale (a : Rat) (ha : 0 < a) (f : Flank) (h x : Rat) :
    flankPos f (a * h) (a * x) = flankPos f h x := by
  cases f <;> simp [flankPos, Slots.risePosCmp, Slots.decayPosCmp, Cmp.evalRat, lt_scale ha, le_scale ha]

theorem findFlankZerox_scale (a : Rat) (ha : 0 < a) (seg : List Rat) (f : Flank) (h : Rat) :
    findFlankZerox (scaleSig a seg) f (a * h) = findFlankZerox seg f h := by
  unfold findFlankZerox
  have : (scaleSig a seg).map (flankPos f (a * h)) = seg.map (flankPos f h) := by
    unfold scaleSig
    rw [List.map_map]
    congr 1
    funext x
    exact flankPos_scale a ha f h x
  rw [this, scaleSig_length]

theorem flankMid_scale (a : Rat) (ha : 0 < a) (seg : List Rat) (f : Flank) :
    flankMid (scaleSig a seg) f = flankMid seg f := by
  unfold flankMid
  simp only [headD_scale, getLastD_scale, all_zero_scale a ha, scaleSig_length]
  have hmid : (a * seg.headD 0 + a * seg.getLastD 0) / 2 = a * ((seg.headD 0 + seg.getLastD 0) / 2) := by ring
  rw [hmid, findFlankZerox_scale a ha]
  cases f <;> simp [Slots.riseInvertedCmp, Slots.decayInvertedCmp, Cmp.evalRat, lt_scale ha]

theorem findFlankMidpoints_scale (a : Rat) (ha : 0 < a) (sig : List Rat) (f : Flank) (n : Nat)
    (starts ends : List Nat) (bias : Nat) :
    findFlankMidpoints (scaleSig a sig) f n starts ends bias = findFlankMidpoints sig f n starts ends bias := by
  unfold findFlankMidpoints
  simp only [slice_scale, scaleSig_isEmpty, flankMid_scale a ha]

theorem findZerox_scale (a : Rat) (ha : 0 < a) (sig : List Rat) (pk tr : List Nat) :
    findZerox (scaleSig a sig) pk tr = findZerox sig pk tr := by
  unfold findZerox
  simp only [findFlankMidpoints_scale a ha]

/-! ### extrema and cyclepoints -/

theorem extremaLoop_go_scale (a : Rat) (sig : List Rat) (pick : List Rat → Option Nat)
    (hp : ∀ l, pick (scaleSig a l) = pick l) (cmp : Cmp) (starts : List Nat) (k i : Nat) (others acc : List Nat) :
    extremaLoop.go (scaleSig a sig) pick cmp starts k i others acc = extremaLoop.go sig pick cmp starts k i others acc := by
  induction k generalizing i others acc with
  | zero => rfl
  | succ k ih =>
    simp only [extremaLoop.go, slice_scale, hp, ih]

theorem extremaLoop_scale (a : Rat) (sig : List Rat) (pick : List Rat → Option Nat)
    (hp : ∀ l, pick (scaleSig a l) = pick l) (cmp : Cmp) (starts : List Nat) (n : Nat) (others : List Nat) :
    extremaLoop (scaleSig a sig) pick cmp starts n others = extremaLoop sig pick cmp starts n others := by
  unfold extremaLoop
  exact extremaLoop_go_scale a sig pick hp cmp starts n 0 others []

theorem rawExtrema_scale (a : Rat) (ha : 0 < a) (sig : List Rat) (b : List Bool) :
    rawExtrema (scaleSig a sig) b = rawExtrema sig b := by
  unfold rawExtrema
  simp only [extremaLoop_scale a sig argmaxFirst (argmaxFirst_scale a ha),
    extremaLoop_scale a sig argminFirst (argminFirst_scale a ha)]

theorem findExtrema_scale (a : Rat) (ha : 0 < a) (sig : List Rat) (pad : Nat) (b : List Bool) (bd : Int) (fe : FirstExt) :
    findExtrema (scaleSig a sig) pad b bd fe = findExtrema sig pad b bd fe := by
  unfold findExtrema
  have hpad : List.replicate pad (0 : Rat) ++ scaleSig a sig ++ List.replicate pad 0 =
      scaleSig a (List.replicate pad (0 : Rat) ++ sig ++ List.replicate pad 0) := by
    rw [scaleSig_append, scaleSig_append, scaleSig_replicate_zero]
  simp only [hpad, rawExtrema_scale a ha, scaleSig_length]

theorem computeCyclepoints_scale (a : Rat) (ha : 0 < a) (sig : List Rat) (pad : Nat) (b : List Bool) (bd : Int) :
    computeCyclepoints (scaleSig a sig) pad b bd = computeCyclepoints sig pad b bd := by
  unfold computeCyclepoints
  simp only [findExtrema_scale a ha, findZerox_scale a ha]

/-! ### shape features -/

theorem getElem?_scale (a : Rat) (l : List Rat) (i : Nat) : (scaleSig a l)[i]? = l[i]?.map (a * ·) := by
  simp [scaleSig]

theorem pyIdx_scale (a : Rat) (x : List Rat) (i : Int) : pyIdx (scaleSig a x) i = (pyIdx x i).map (a * ·) := by
  unfold pyIdx
  simp only [scaleSig_length, getElem?_scale]
  generalize (if i < 0 then i + (x.length : Int) else i) = j
  by_cases hj : 0 ≤ j
  · simp only [hj, if_true]
    cases x[j.toNat]? <;> rfl
  · simp only [hj, if_false]
    rfl

theorem pySlice_scale (a : Rat) (x : List Rat) (l r : Int) : pySlice (scaleSig a x) l r = scaleSig a (pySlice x l r) := by
  unfold pySlice
  simp only [scaleSig_length, slice_scale]

theorem sumRat_foldl_scale (a : Rat) (l : List Rat) (acc : Rat) :
    (scaleSig a l).foldl (· + ·) (a * acc) = a * l.foldl (· + ·) acc := by
  induction l generalizing acc with
  | nil => rfl
  | cons x xs ih =>
    rw [scaleSig_cons, List.foldl_cons, List.foldl_cons, ← mul_add, ih]

theorem sumRat_scale (a : Rat) (l : List Rat) : sumRat (scaleSig a l) = a * sumRat l := by
  unfold sumRat
  have := sumRat_foldl_scale a l 0
  rwa [mul_zero] at this

theorem meanRat_scale (a : Rat) (l : List Rat) : meanRat (scaleSig a l) = (meanRat l).map (a * ·) := by
  unfold meanRat
  rw [scaleSig_isEmpty, sumRat_scale, scaleSig_length]
  split
  · rfl
  · simp [mul_div_assoc]

theorem shapeOfRow_scale (a : Rat) (x : List Rat) (r : SampleRow) :
    shapeOfRow (scaleSig a x) r = (shapeOfRow x r).map (ShapeRow.scaleVolts a) := by
  unfold shapeOfRow
  simp only [pyIdx_scale]
  cases pyIdx x r.peak with
  | error e => rfl
  | ok v1 =>
    cases pyIdx x r.lastTrough with
    | error e => rfl
    | ok v2 =>
      cases pyIdx x r.nextTrough with
      | error e => rfl
      | ok v3 =>
        simp only [Except.map, bind, Except.bind, ShapeRow.scaleVolts, F.scale]
        congr 2 <;> ring

theorem mapM_map_of_pointwise {α β : Type} (f f' : α → Except Err β) (g : β → β) (h : ∀ x, f' x = (f x).map g)
    (l : List α) : l.mapM f' = (l.mapM f).map (List.map g) := by
  induction l with
  | nil => rfl
  | cons x xs ih =>
    rw [List.mapM_cons, List.mapM_cons, h, ih]
    cases f x with
    | error e => rfl
    | ok v =>
      cases List.mapM f xs with
      | error e => rfl
      | ok vs => rfl

theorem bandAmps_scale (a : Rat) (amp : List Rat) (rows : List SampleRow) :
    bandAmps (scaleSig a amp) rows = (bandAmps amp rows).map (List.map (F.scale a)) := by
  cases rows with
  | nil => rfl
  | cons r0 rest =>
    simp only [bandAmps, Except.map, List.map_map, pySlice_scale, meanRat_scale]
    congr 1
    apply List.map_congr_left
    intro i _
    simp only [Function.comp]
    cases meanRat (pySlice amp ((r0.lastTrough :: List.map (fun x => x.nextTrough) (r0 :: rest)).getD i 0)
      ((r0.lastTrough :: List.map (fun x => x.nextTrough) (r0 :: rest)).getD (i + 1) 0)) <;> rfl

theorem shapePeak_scale (a : Rat) (_ha : 0 < a) (x amp : List Rat) (rows : List SampleRow) :
    shapePeak (scaleSig a x) (scaleSig a amp) rows = (shapePeak x amp rows).map fun l => l.map (ShapeRow.scaleVolts a) := by
  unfold shapePeak
  rw [mapM_map_of_pointwise (shapeOfRow x) (shapeOfRow (scaleSig a x)) (ShapeRow.scaleVolts a) (shapeOfRow_scale a x),
    bandAmps_scale]
  cases List.mapM (shapeOfRow x) rows with
  | error e => rfl
  | ok sh =>
    cases bandAmps amp rows with
    | error e => rfl
    | ok ba =>
      simp only [Except.map, bind, Except.bind, List.zip_map, List.map_map]
      congr 1

/-! ### burst features -/

theorem ratioMinMax_scale (a : Rat) (ha : 0 < a) (x y : Rat) : ratioMinMax (a * x) (a * y) = ratioMinMax x y := by
  unfold ratioMinMax F.divRat
  rw [← mul_min_of_nonneg _ _ (le_of_lt ha), ← mul_max_of_nonneg _ _ (le_of_lt ha)]
  simp only [eq_zero_scale ha, mul_pos_iff_of_pos_left ha, mul_div_mul_left _ _ (ne_of_gt ha)]

theorem atOff_scale (a : Rat) (l : List Rat) (c : Nat) (off : Int) : atOff (scaleSig a l) c off = a * atOff l c off := by
  unfold atOff
  rw [List.getD_eq_getElem?_getD, List.getD_eq_getElem?_getD, getElem?_scale]
  cases l[((c : Int) + off).toNat]? <;> simp

theorem ampConsistency_scale (a : Rat) (ha : 0 < a) (pc : Bool) (dir : Direction) (rises decays : List Rat) :
    ampConsistency pc dir (scaleSig a rises) (scaleSig a decays) = ampConsistency pc dir rises decays := by
  unfold ampConsistency
  simp only [scaleSig_length, atOff_scale, ratioMinMax_scale a ha]

theorem stepFraction_scale (a : Rat) (ha : 0 < a) (up : Bool) (w : List Rat) :
    stepFraction up (scaleSig a w) = stepFraction up w := by
  unfold stepFraction
  have hz : (scaleSig a w).zip ((scaleSig a w).drop 1) = (w.zip (w.drop 1)).map (Prod.map (a * ·) (a * ·)) := by
    unfold scaleSig
    rw [← List.map_drop, List.zip_map]
  simp only [hz, List.isEmpty_map, List.filter_map, List.length_map]
  have hf : ((fun (p : Rat × Rat) =>
        if up = true then Slots.monoRiseCmp.evalRat (p.2 - p.1) 0 else Slots.monoDecayCmp.evalRat (p.2 - p.1) 0) ∘
        Prod.map (a * ·) (a * ·)) =
      (fun (p : Rat × Rat) =>
        if up = true then Slots.monoRiseCmp.evalRat (p.2 - p.1) 0 else Slots.monoDecayCmp.evalRat (p.2 - p.1) 0) := by
    funext p
    obtain ⟨u, v⟩ := p
    simp only [Function.comp, Prod.map, Slots.monoRiseCmp, Slots.monoDecayCmp, Cmp.evalRat, sub_pos, sub_neg, lt_scale ha]
  rw [hf]

theorem monotonicity_scale (a : Rat) (ha : 0 < a) (pc : Bool) (sig : List Rat) (rows : List (Int × Int × Int)) :
    monotonicity pc (scaleSig a sig) rows = monotonicity pc sig rows := by
  unfold monotonicity
  simp only [pySlice_scale, stepFraction_scale a ha]

theorem rankAvg_scale (a : Rat) (ha : 0 < a) (xs : List Rat) (x : Rat) :
    rankAvg (scaleSig a xs) (a * x) = rankAvg xs x := by
  unfold rankAvg scaleSig
  simp only [List.filter_map, List.length_map]
  have h1 : ((fun y => decide (y < a * x)) ∘ fun x => a * x) = fun y => decide (y < x) := by
    funext y; simp [lt_scale ha]
  have h2 : ((fun y => decide (y = a * x)) ∘ fun x => a * x) = fun y => decide (y = x) := by
    funext y; simp [eq_scale ha]
  rw [h1, h2]

theorem ampFraction_scale (a : Rat) (ha : 0 < a) (va : List Rat) : ampFraction (scaleSig a va) = ampFraction va := by
  unfold ampFraction
  rw [scaleSig_length]
  conv_lhs => rw [show scaleSig a va = va.map (a * ·) from rfl, List.map_map]
  apply List.map_congr_left
  intro x _
  simp only [Function.comp]
  rw [show va.map (a * ·) = scaleSig a va from rfl, rankAvg_scale a ha]

/-! ### C09: negation / centring swap -/

theorem negSig_negSig (x : List Rat) : negSig (negSig x) = x := by
  simp [negSig]

theorem negSig_length (x : List Rat) : (negSig x).length = x.length := by simp [negSig]

theorem slice_neg (l : List Rat) (s e : Nat) : slice (negSig l) s e = negSig (slice l s e) := by
  simp [slice, negSig, List.map_take, List.map_drop]

theorem pySlice_neg (x : List Rat) (l r : Int) : pySlice (negSig x) l r = negSig (pySlice x l r) := by
  unfold pySlice
  simp only [negSig_length, slice_neg]

theorem ampConsistency_mirror (dir : Direction) (rises decays : List Rat) (hlen : rises.length = decays.length) :
    ampConsistency false dir rises decays = ampConsistency true dir decays rises := by
  by_cases hn : 0 < rises.length
  · rw [ampConsistency_dir_eq_spec false dir rises decays hlen hn,
      ampConsistency_dir_eq_spec true dir decays rises hlen.symm (hlen ▸ hn)]
    have hfl : flankSeq false rises decays = flankSeq true decays rises := by
      simp [flankSeq, hlen]
    rw [hfl, hlen]
  · have hr : rises = [] := List.eq_nil_of_length_eq_zero (by omega)
    have hd : decays = [] := List.eq_nil_of_length_eq_zero (by omega)
    subst hr; subst hd
    rw [ampConsistency_empty, ampConsistency_empty]

theorem stepFraction_neg (up : Bool) (w : List Rat) :
    stepFraction up (negSig w) = stepFraction (!up) w := by
  unfold stepFraction
  have hz : (negSig w).zip ((negSig w).drop 1) = (w.zip (w.drop 1)).map (Prod.map (- ·) (- ·)) := by
    unfold negSig
    rw [← List.map_drop, List.zip_map]
  simp only [hz, List.isEmpty_map, List.filter_map, List.length_map]
  have hf : ((fun (p : Rat × Rat) =>
        if up = true then Slots.monoRiseCmp.evalRat (p.2 - p.1) 0 else Slots.monoDecayCmp.evalRat (p.2 - p.1) 0) ∘
        Prod.map (- ·) (- ·)) =
      (fun (p : Rat × Rat) =>
        if (!up) = true then Slots.monoRiseCmp.evalRat (p.2 - p.1) 0 else Slots.monoDecayCmp.evalRat (p.2 - p.1) 0) := by
    funext p
    obtain ⟨u, v⟩ := p
    cases up <;>
      simp [Function.comp, Prod.map, Slots.monoRiseCmp, Slots.monoDecayCmp, Cmp.evalRat, sub_pos, sub_neg]
  rw [hf]

theorem meanF2_comm (a b : F) : meanF2 a b = meanF2 b a := by
  cases a <;> cases b <;> simp [meanF2, add_comm]

theorem monotonicity_mirror (x : List Rat) (rows : List (Int × Int × Int)) :
    monotonicity false x rows = monotonicity true (negSig x) rows := by
  unfold monotonicity
  apply List.map_congr_left
  intro r _
  obtain ⟨l, c, n⟩ := r
  simp only [pySlice_neg, stepFraction_neg, Bool.not_true, Bool.not_false, if_true]
  simp only [Bool.false_eq_true, if_false]
  exact meanF2_comm _ _

theorem mirror_involution (s : ShapeRow) (q1 q2 : Rat) (h1 : s.timeRdsym = .fin q1) (h2 : s.timePtsym = .fin q2) :
    Slots.flipShape (Slots.renameShape (Slots.flipShape (Slots.renameShape s))) = s := by
  cases s
  simp only at h1 h2
  subst h1; subst h2
  simp [Slots.flipShape, Slots.renameShape, F.oneMinus]

theorem shape_mirror (x amp : List Rat) (rows : List SampleRow) :
    shapeFeatures .trough (negSig x) amp rows =
      (shapeFeatures .peak (negSig x) amp rows).map fun l => l.map fun s => Slots.flipShape (Slots.renameShape s) := rfl

end Bycycle.CovAux
