import BycycleModel.Frames
/-!
# Helper lemmas for C13 (epoching) and C18 (windowing utilities)
-/
namespace Bycycle

/-! ### C13 -/

theorem epochDf_eq_spec {P} (rows : List (FRow P)) (sigLen L : Nat) :
    epochDf rows sigLen L = epochSpec rows sigLen L := by
  sorry

theorem epochSpec_length {P} (rows : List (FRow P)) (sigLen L : Nat) :
    (epochSpec rows sigLen L).length = nEpochs sigLen L := by
  sorry

theorem shift_unshift (r : SampleRow) (k : Int) : (r.shift k).shift (-k) = r := by
  sorry

/-- a row whose closing side extremum lies in `(0, sigLen]` belongs to exactly one epoch:
number `(next - 1) / L`. -/
theorem epoch_unique (next : Int) (sigLen L : Nat) (hL : 0 < L) (h0 : 0 < next) (h1 : next ≤ sigLen) :
    ∃ e, e < nEpochs sigLen L ∧ (((e * L : Nat) : Int) < next ∧ next ≤ (((e + 1) * L : Nat) : Int)) ∧
      ∀ e', (((e' * L : Nat) : Int) < next ∧ next ≤ (((e' + 1) * L : Nat) : Int)) → e' = e := by
  sorry

/-- membership: a (shifted) row is in epoch `e` iff the original row is in the table and its closing side
extremum lies in `(e·L, (e+1)·L]`. -/
theorem mem_epochSpec {P} (rows : List (FRow P)) (sigLen L e : Nat) (he : e < nEpochs sigLen L) (t : FRow P) :
    t ∈ (epochSpec rows sigLen L).getD e [] ↔
      ∃ r ∈ rows, t = r.shift ((e * L : Nat) : Int) ∧ ((e * L : Nat) : Int) < r.s.nextTrough ∧ r.s.nextTrough ≤ (((e + 1) * L : Nat) : Int) := by
  sorry

/-- with closing extrema in temporal order, un-shifting and concatenating the epochs gives back the
flattened table: every cycle exactly once, original order, nothing altered. -/
theorem epoch_partition {P} (rows : List (FRow P)) (sigLen L : Nat) (hL : 0 < L)
    (hin : ∀ r ∈ rows, 0 < r.s.nextTrough ∧ r.s.nextTrough ≤ (sigLen : Int))
    (hsorted : rows.Pairwise fun a b => a.s.nextTrough ≤ b.s.nextTrough) :
    ((epochSpec rows sigLen L).zipIdx.flatMap fun p => p.1.map fun r => r.shift (-((p.2 * L : Nat) : Int))) = rows := by
  sorry

/-- one option set: the epochs carry the labels of the flattened analysis (no re-labelling). -/
theorem featuresFlat_single {P O} (analyseFlat : O → List (FRow P)) (relabel : O → List (FRow P) → List (FRow P))
    (ks : List O) (dflt : O) (sigLen L : Nat) (h : ks.length ≤ 1) :
    featuresFlat analyseFlat relabel ks dflt sigLen L = epochSpec (analyseFlat (ks.headD dflt)) sigLen L := by
  sorry

/-- a per-epoch list: epoch `e` is re-labelled with option set `e`. -/
theorem featuresFlat_list {P O} (analyseFlat : O → List (FRow P)) (relabel : O → List (FRow P) → List (FRow P))
    (ks : List O) (dflt : O) (sigLen L : Nat) (h : 1 < ks.length) (e : Nat) (he : e < nEpochs sigLen L) (o : O) (ho : ks[e]? = some o) :
    (featuresFlat analyseFlat relabel ks dflt sigLen L)[e]? =
      some (relabel o ((epochSpec (analyseFlat (ks.headD dflt)) sigLen L).getD e [])) := by
  sorry

/-! ### C18 -/

theorem limitDf_eq_spec {P} (rows : List (FRow P)) (a : Rat) (b : Option Rat) (off : Int) (reset : Bool) :
    limitDf rows a b off reset = limitSpec rows a b off reset := by
  sorry

/-- the kept rows are a sub-list of the table: in order, values unchanged. -/
theorem limitSpec_sublist {P} (rows : List (FRow P)) (a : Rat) (b : Option Rat) (off : Int) :
    (limitSpec rows a b off false).Sublist rows := by
  sorry

theorem mem_limitSpec {P} (rows : List (FRow P)) (a : Rat) (b : Option Rat) (off : Int) (r : FRow P) :
    r ∈ limitSpec rows a b off false ↔
      (r ∈ rows ∧ a ≤ (r.s.lastTrough : Rat) ∧ ∀ st, b = some st → (r.s.nextTrough : Rat) ≤ st) := by
  sorry

/-- no cycle lying entirely outside the window is kept (for an ordered row: last side < next side). -/
theorem limitSpec_outside {P} (rows : List (FRow P)) (a st : Rat) (off : Int) (r : FRow P)
    (hr : r ∈ limitSpec rows a (some st) off false) (hord : r.s.lastTrough < r.s.nextTrough) :
    ¬ ((r.s.nextTrough : Rat) < a) ∧ ¬ (st < (r.s.lastTrough : Rat)) := by
  sorry

/-- reset_indices shifts all six sample columns by one common offset. -/
theorem limitSpec_reset {P} (rows : List (FRow P)) (a : Rat) (b : Option Rat) (off : Int) :
    limitSpec rows a b off true = (limitSpec rows a b off false).map (·.shift off) ∧
    ∀ r : SampleRow, (r.shift off).peak = r.peak - off ∧ (r.shift off).lastZeroxDecay = r.lastZeroxDecay - off ∧
      (r.shift off).zeroxDecay = r.zeroxDecay - off ∧ (r.shift off).zeroxRise = r.zeroxRise - off ∧
      (r.shift off).lastTrough = r.lastTrough - off ∧ (r.shift off).nextTrough = r.nextTrough - off := by
  sorry

theorem limitSignal_eq_spec (times : List Rat) (a b : Option Rat) : limitSignal times a b = limitSignalSpec times a b := by
  sorry

theorem mem_limitSignalSpec (times : List Rat) (a b : Option Rat) (i : Nat) :
    i ∈ limitSignalSpec times a b ↔
      (i < times.length ∧ (∀ x, a = some x → x ≤ times.getD i 0) ∧ (∀ y, b = some y → times.getD i 0 < y)) := by
  sorry

/-- split / drop partition the columns by the `sample_` prefix. -/
theorem splitSamples_partition (cols : List String) :
    (splitSamples cols).1 = dropSamples cols ∧
    (∀ c, c ∈ (splitSamples cols).1 ↔ (c ∈ cols ∧ c.startsWith "sample_" = false)) ∧
    (∀ c, c ∈ (splitSamples cols).2 ↔ (c ∈ cols ∧ c.startsWith "sample_" = true)) ∧
    (splitSamples cols).1.length + (splitSamples cols).2.length = cols.length := by
  sorry

/-- flatten_dfs: rows in table order, each carrying the label of its table; label count must match. -/
theorem flattenDfs_spec {α L} (tables : List (List α)) (labels : List L) :
    (labels.length ≠ tables.length → flattenDfs tables labels = .error .valueError) ∧
    (labels.length = tables.length → ∃ out, flattenDfs tables labels = .ok out ∧ out.map (·.1) = tables.flatten ∧
      out.length = (tables.map List.length).sum) := by
  sorry

theorem flattenDfs_labels {α L} (tables : List (List α)) (labels : List L) (out : List (α × L))
    (h : flattenDfs tables labels = .ok out) (p : α × L) (hp : p ∈ out) :
    ∃ (i : Nat) (t : List α) (l : L), tables[i]? = some t ∧ labels[i]? = some l ∧ p.1 ∈ t ∧ p.2 = l := by
  sorry

end Bycycle
