import BycycleModel.Frames
/-!
# Helper lemmas for C13 (epoching) and C18 (windowing utilities)
-/
namespace Bycycle

/-! ### C13 -/

theorem epochDf_eq_spec {P} (rows : List (FRow P)) (sigLen L : Nat) :
    epochDf rows sigLen L = epochSpec rows sigLen L := by
  unfold epochDf epochSpec nEpochs
  apply List.map_congr_left
  intro e _
  dsimp only
  congr 1
  apply List.filter_congr
  intro r _
  simp only [Slots.epochUpperCmp, Slots.epochLowerCmp, Cmp.evalInt]
  rw [Bool.and_comm]

theorem epochSpec_length {P} (rows : List (FRow P)) (sigLen L : Nat) :
    (epochSpec rows sigLen L).length = nEpochs sigLen L := by
  simp [epochSpec]

theorem shift_unshift (r : SampleRow) (k : Int) : (r.shift k).shift (-k) = r := by
  cases r
  simp only [SampleRow.shift, SampleRow.mk.injEq]
  omega

theorem FRow.shift_unshift {P} (r : FRow P) (k : Int) : (r.shift k).shift (-k) = r := by
  cases r
  simp [FRow.shift, Bycycle.shift_unshift]

/-- the epoch of a positive sample index `m` is `(m - 1) / L`. -/
theorem epoch_iff (m L e : Nat) (hL : 0 < L) (hm : 0 < m) :
    (e * L < m ∧ m ≤ (e + 1) * L) ↔ (m - 1) / L = e := by
  rw [Nat.div_eq_iff hL, Nat.succ_mul]
  omega

/-- a row whose closing side extremum lies in `(0, sigLen]` belongs to exactly one epoch:
number `(next - 1) / L`. -/
theorem epoch_unique (next : Int) (sigLen L : Nat) (hL : 0 < L) (h0 : 0 < next) (h1 : next ≤ sigLen) :
    ∃ e, e < nEpochs sigLen L ∧ (((e * L : Nat) : Int) < next ∧ next ≤ (((e + 1) * L : Nat) : Int)) ∧
      ∀ e', (((e' * L : Nat) : Int) < next ∧ next ≤ (((e' + 1) * L : Nat) : Int)) → e' = e := by
  obtain ⟨m, rfl⟩ : ∃ m : Nat, next = m := ⟨next.toNat, by omega⟩
  have hm : 0 < m := by omega
  have hms : m ≤ sigLen := by omega
  refine ⟨(m - 1) / L, ?_, ?_, ?_⟩
  · unfold nEpochs
    have h2 : (m - 1) / L ≤ (sigLen - 1) / L := Nat.div_le_div_right (by omega)
    have h3 : sigLen + L - 1 = (sigLen - 1) + L := by omega
    rw [h3, Nat.add_div_right _ hL]
    omega
  · have := (epoch_iff m L ((m - 1) / L) hL hm).2 rfl
    exact ⟨by exact_mod_cast this.1, by exact_mod_cast this.2⟩
  · intro e' h
    have := (epoch_iff m L e' hL hm).1 ⟨by exact_mod_cast h.1, by exact_mod_cast h.2⟩
    exact this.symm

/-- membership: a (shifted) row is in epoch `e` iff the original row is in the table and its closing side
extremum lies in `(e·L, (e+1)·L]`. -/
theorem mem_epochSpec {P} (rows : List (FRow P)) (sigLen L e : Nat) (he : e < nEpochs sigLen L) (t : FRow P) :
    t ∈ (epochSpec rows sigLen L).getD e [] ↔
      ∃ r ∈ rows, t = r.shift ((e * L : Nat) : Int) ∧ ((e * L : Nat) : Int) < r.s.nextTrough ∧ r.s.nextTrough ≤ (((e + 1) * L : Nat) : Int) := by
  unfold epochSpec
  rw [List.getD_eq_getElem?_getD, List.getElem?_map, List.getElem?_range he]
  simp only [Option.map_some, Option.getD_some, List.mem_map, List.mem_filter, Bool.and_eq_true,
    decide_eq_true_eq]
  constructor
  · rintro ⟨r, ⟨hr, h1, h2⟩, rfl⟩
    exact ⟨r, hr, rfl, h1, h2⟩
  · rintro ⟨r, hr, rfl, h1, h2⟩
    exact ⟨r, ⟨hr, h1, h2⟩, rfl⟩

/-- sorted list, values `≤ n`: the `< n` part followed by the `= n` part is the list. -/
theorem filter_lt_append_filter_eq {α} (f : α → Nat) (n : Nat) (l : List α)
    (hs : l.Pairwise fun a b => f a ≤ f b) (hb : ∀ a ∈ l, f a ≤ n) :
    l.filter (fun a => decide (f a < n)) ++ l.filter (fun a => f a == n) = l := by
  induction l with
  | nil => rfl
  | cons a l ih =>
    rw [List.pairwise_cons] at hs
    have hb' : ∀ b ∈ l, f b ≤ n := fun b hb' => hb b (List.mem_cons_of_mem _ hb')
    by_cases ha : f a < n
    · rw [List.filter_cons_of_pos (by simpa using ha), List.filter_cons_of_neg (by simp; omega)]
      rw [List.cons_append, ih hs.2 hb']
    · have han : f a = n := by have := hb a List.mem_cons_self; omega
      have h1 : (a :: l).filter (fun a => decide (f a < n)) = [] := by
        rw [List.filter_eq_nil_iff]
        intro b hb1
        rcases List.mem_cons.1 hb1 with rfl | hb1
        · simpa using ha
        · have := hs.1 b hb1; simp; omega
      have h2 : (a :: l).filter (fun a => f a == n) = a :: l := by
        rw [List.filter_eq_self]
        intro b hb1
        have : f b ≤ n := hb b hb1
        rcases List.mem_cons.1 hb1 with rfl | hb1
        · simpa using han
        · have := hs.1 b hb1; simp; omega
      rw [h1, h2, List.nil_append]

theorem flatMap_filter_eq_self {α} (f : α → Nat) (n : Nat) (l : List α)
    (hs : l.Pairwise fun a b => f a ≤ f b) (hb : ∀ a ∈ l, f a < n) :
    (List.range n).flatMap (fun e => l.filter (fun a => f a == e)) = l := by
  induction n generalizing l with
  | zero =>
    cases l with
    | nil => rfl
    | cons a l => exact absurd (hb a List.mem_cons_self) (Nat.not_lt_zero _)
  | succ n ih =>
    rw [List.range_succ, List.flatMap_append]
    have h := ih (l.filter (fun a => decide (f a < n))) (hs.filter _) (by
      intro a ha; simpa using (List.mem_filter.1 ha).2)
    have h2 : (List.range n).flatMap (fun e => l.filter (fun a => f a == e)) =
        (List.range n).flatMap (fun e => (l.filter (fun a => decide (f a < n))).filter (fun a => f a == e)) := by
      rw [List.flatMap_def, List.flatMap_def]
      congr 1
      apply List.map_congr_left
      intro e he
      rw [List.filter_filter]
      apply List.filter_congr
      intro a _
      have : e < n := List.mem_range.1 he
      by_cases hae : f a = e
      · simp [hae, this]
      · simp [hae]
    rw [h2, h]
    simp only [List.flatMap_cons, List.flatMap_nil, List.append_nil]
    exact filter_lt_append_filter_eq f n l hs (fun a ha => Nat.le_of_lt_succ (hb a ha))

/-- `zipIdx` of a list built from `range`. -/
theorem zipIdx_map_range {β} (h : Nat → β) (n : Nat) :
    ((List.range n).map h).zipIdx = (List.range n).map (fun e => (h e, e)) := by
  apply List.ext_getElem
  · simp
  · intro i h1 h2
    simp

/-- with closing extrema in temporal order, un-shifting and concatenating the epochs gives back the
flattened table: every cycle exactly once, original order, nothing altered. -/
theorem epoch_partition {P} (rows : List (FRow P)) (sigLen L : Nat) (hL : 0 < L)
    (hin : ∀ r ∈ rows, 0 < r.s.nextTrough ∧ r.s.nextTrough ≤ (sigLen : Int))
    (hsorted : rows.Pairwise fun a b => a.s.nextTrough ≤ b.s.nextTrough) :
    ((epochSpec rows sigLen L).zipIdx.flatMap fun p => p.1.map fun r => r.shift (-((p.2 * L : Nat) : Int))) = rows := by
  unfold epochSpec
  rw [zipIdx_map_range, List.flatMap_map]
  simp only [List.map_map]
  have hid : ∀ e : Nat, ((fun r : FRow P => r.shift (-((e * L : Nat) : Int))) ∘ fun r => r.shift ((e * L : Nat) : Int)) = id := by
    intro e; funext r; exact FRow.shift_unshift r _
  simp only [hid, List.map_id]
  let f : FRow P → Nat := fun r => (r.s.nextTrough.toNat - 1) / L
  have hkey : ∀ e, rows.filter (fun r => decide (((e * L : Nat) : Int) < r.s.nextTrough) && decide (r.s.nextTrough ≤ (((e + 1) * L : Nat) : Int)))
      = rows.filter (fun r => f r == e) := by
    intro e
    apply List.filter_congr
    intro r hr
    obtain ⟨h0, h1⟩ := hin r hr
    obtain ⟨m, hm⟩ : ∃ m : Nat, r.s.nextTrough = m := ⟨r.s.nextTrough.toNat, by omega⟩
    have hm0 : 0 < m := by omega
    have := epoch_iff m L e hL hm0
    simp only [f, hm, Int.toNat_natCast]
    rw [Bool.eq_iff_iff]
    simp only [Bool.and_eq_true, decide_eq_true_eq, beq_iff_eq]
    rw [← this]
    constructor
    · intro h; exact ⟨by exact_mod_cast h.1, by exact_mod_cast h.2⟩
    · intro h; exact ⟨by exact_mod_cast h.1, by exact_mod_cast h.2⟩
  simp only [hkey]
  apply flatMap_filter_eq_self
  · refine hsorted.imp ?_
    intro a b hab
    exact Nat.div_le_div_right (by omega)
  · intro r hr
    obtain ⟨h0, h1⟩ := hin r hr
    obtain ⟨e, he, hin', -⟩ := epoch_unique r.s.nextTrough sigLen L hL h0 h1
    obtain ⟨m, hm⟩ : ∃ m : Nat, r.s.nextTrough = m := ⟨r.s.nextTrough.toNat, by omega⟩
    have hm0 : 0 < m := by omega
    rw [hm] at hin'
    have := (epoch_iff m L e hL hm0).1 ⟨by exact_mod_cast hin'.1, by exact_mod_cast hin'.2⟩
    simp only [f, hm, Int.toNat_natCast, this]
    exact he

/-- one option set: the epochs carry the labels of the flattened analysis (no re-labelling). -/
theorem featuresFlat_single {P O} (analyseFlat : O → List (FRow P)) (relabel : O → List (FRow P) → List (FRow P))
    (ks : List O) (dflt : O) (sigLen L : Nat) (h : ks.length ≤ 1) :
    featuresFlat analyseFlat relabel ks dflt sigLen L = epochSpec (analyseFlat (ks.headD dflt)) sigLen L := by
  unfold featuresFlat
  have : Slots.relabelCmp.evalInt ks.length Slots.relabelLen = false := by
    simp only [Slots.relabelCmp, Slots.relabelLen, Cmp.evalInt]
    simp; omega
  simp only [this, epochDf_eq_spec]
  simp

/-- a per-epoch list: epoch `e` is re-labelled with option set `e`. -/
theorem featuresFlat_list {P O} (analyseFlat : O → List (FRow P)) (relabel : O → List (FRow P) → List (FRow P))
    (ks : List O) (dflt : O) (sigLen L : Nat) (h : 1 < ks.length) (e : Nat) (he : e < nEpochs sigLen L) (o : O) (ho : ks[e]? = some o) :
    (featuresFlat analyseFlat relabel ks dflt sigLen L)[e]? =
      some (relabel o ((epochSpec (analyseFlat (ks.headD dflt)) sigLen L).getD e [])) := by
  unfold featuresFlat
  have : Slots.relabelCmp.evalInt ks.length Slots.relabelLen = true := by
    simp only [Slots.relabelCmp, Slots.relabelLen, Cmp.evalInt]
    simp; omega
  simp only [this, epochDf_eq_spec, if_true]
  have hlen : e < (epochSpec (analyseFlat (ks.headD dflt)) sigLen L).length := by
    rw [epochSpec_length]; exact he
  rw [List.getElem?_map, List.getElem?_zipIdx, List.getElem?_eq_getElem hlen]
  simp only [Option.map_some, Nat.zero_add, ho, List.getD_eq_getElem?_getD, List.getElem?_eq_getElem hlen, Option.getD_some]

/-! ### C18 -/

theorem limitDf_eq_spec {P} (rows : List (FRow P)) (a : Rat) (b : Option Rat) (off : Int) (reset : Bool) :
    limitDf rows a b off reset = limitSpec rows a b off reset := by
  unfold limitDf limitSpec
  cases b with
  | none =>
    simp only [Slots.limitLoCmp, Cmp.evalRat, Bool.and_true]
  | some st =>
    simp only [Slots.limitLoCmp, Slots.limitHiCmp, Cmp.evalRat, List.filter_filter]
    simp only [Bool.and_comm]

/-- the kept rows are a sub-list of the table: in order, values unchanged. -/
theorem limitSpec_sublist {P} (rows : List (FRow P)) (a : Rat) (b : Option Rat) (off : Int) :
    (limitSpec rows a b off false).Sublist rows := by
  unfold limitSpec
  exact List.filter_sublist

theorem mem_limitSpec {P} (rows : List (FRow P)) (a : Rat) (b : Option Rat) (off : Int) (r : FRow P) :
    r ∈ limitSpec rows a b off false ↔
      (r ∈ rows ∧ a ≤ (r.s.lastTrough : Rat) ∧ ∀ st, b = some st → (r.s.nextTrough : Rat) ≤ st) := by
  unfold limitSpec
  cases b with
  | none => simp [List.mem_filter]
  | some st => simp [List.mem_filter]

/-- no cycle lying entirely outside the window is kept (for an ordered row: last side < next side). -/
theorem limitSpec_outside {P} (rows : List (FRow P)) (a st : Rat) (off : Int) (r : FRow P)
    (hr : r ∈ limitSpec rows a (some st) off false) (hord : r.s.lastTrough < r.s.nextTrough) :
    ¬ ((r.s.nextTrough : Rat) < a) ∧ ¬ (st < (r.s.lastTrough : Rat)) := by
  obtain ⟨-, h1, h2⟩ := (mem_limitSpec rows a (some st) off r).1 hr
  have h2 := h2 st rfl
  have h3 : (r.s.lastTrough : Rat) < (r.s.nextTrough : Rat) := by exact_mod_cast hord
  exact ⟨Rat.not_lt.2 (Rat.le_trans h1 (Rat.le_of_lt h3)), Rat.not_lt.2 (Rat.le_trans (Rat.le_of_lt h3) h2)⟩

/-- reset_indices shifts all six sample columns by one common offset. -/
theorem limitSpec_reset {P} (rows : List (FRow P)) (a : Rat) (b : Option Rat) (off : Int) :
    limitSpec rows a b off true = (limitSpec rows a b off false).map (·.shift off) ∧
    ∀ r : SampleRow, (r.shift off).peak = r.peak - off ∧ (r.shift off).lastZeroxDecay = r.lastZeroxDecay - off ∧
      (r.shift off).zeroxDecay = r.zeroxDecay - off ∧ (r.shift off).zeroxRise = r.zeroxRise - off ∧
      (r.shift off).lastTrough = r.lastTrough - off ∧ (r.shift off).nextTrough = r.nextTrough - off := by
  refine ⟨by simp [limitSpec], fun r => ⟨rfl, rfl, rfl, rfl, rfl, rfl⟩⟩

theorem limitSignal_eq_spec (times : List Rat) (a b : Option Rat) : limitSignal times a b = limitSignalSpec times a b := by
  unfold limitSignal limitSignalSpec
  cases a with
  | none =>
    cases b with
    | none =>
      simp only [Bool.and_true]
      exact (List.filter_eq_self.2 (fun _ _ => rfl)).symm
    | some y => simp only [Slots.sigHiCmp, Cmp.evalRat, Bool.true_and]
  | some x =>
    cases b with
    | none => simp only [Slots.sigLoCmp, Cmp.evalRat, Bool.and_true]
    | some y =>
      simp only [Slots.sigLoCmp, Slots.sigHiCmp, Cmp.evalRat, List.filter_filter]
      simp only [Bool.and_comm]

theorem mem_limitSignalSpec (times : List Rat) (a b : Option Rat) (i : Nat) :
    i ∈ limitSignalSpec times a b ↔
      (i < times.length ∧ (∀ x, a = some x → x ≤ times.getD i 0) ∧ (∀ y, b = some y → times.getD i 0 < y)) := by
  unfold limitSignalSpec
  cases a <;> cases b <;> simp [List.mem_filter]

theorem length_filter_add_not {α} (p : α → Bool) (l : List α) :
    (l.filter fun c => !p c).length + (l.filter p).length = l.length := by
  induction l with
  | nil => rfl
  | cons a l ih =>
    cases h : p a <;> simp [h] <;> omega

/-- split / drop partition the columns by the `sample_` prefix. -/
theorem splitSamples_partition (cols : List String) :
    (splitSamples cols).1 = dropSamples cols ∧
    (∀ c, c ∈ (splitSamples cols).1 ↔ (c ∈ cols ∧ c.startsWith "sample_" = false)) ∧
    (∀ c, c ∈ (splitSamples cols).2 ↔ (c ∈ cols ∧ c.startsWith "sample_" = true)) ∧
    (splitSamples cols).1.length + (splitSamples cols).2.length = cols.length := by
  refine ⟨rfl, ?_, ?_, ?_⟩
  · intro c; simp only [splitSamples, List.mem_filter, Bool.not_eq_true']
  · intro c; simp only [splitSamples, List.mem_filter]
  · exact length_filter_add_not (fun c => c.startsWith "sample_") cols

theorem flatten_zip_fst {α L} (tables : List (List α)) (labels : List L) (h : labels.length = tables.length) :
    (((tables.zip labels).flatMap fun (t, l) => t.map fun r => (r, l)).map (·.1)) = tables.flatten := by
  induction tables generalizing labels with
  | nil => simp
  | cons t ts ih =>
    cases labels with
    | nil => simp at h
    | cons l ls =>
      simp only [List.length_cons, Nat.add_right_cancel_iff] at h
      simp only [List.zip_cons_cons, List.flatMap_cons, List.map_append, List.map_map, List.flatten_cons]
      rw [ih ls h]
      congr 1
      simp [Function.comp_def]

/-- flatten_dfs: rows in table order, each carrying the label of its table; label count must match. -/
theorem flattenDfs_spec {α L} (tables : List (List α)) (labels : List L) :
    (labels.length ≠ tables.length → flattenDfs tables labels = .error .valueError) ∧
    (labels.length = tables.length → ∃ out, flattenDfs tables labels = .ok out ∧ out.map (·.1) = tables.flatten ∧
      out.length = (tables.map List.length).sum) := by
  constructor
  · intro h; simp [flattenDfs, h]
  · intro h
    refine ⟨_, by simp only [flattenDfs, h, ne_eq, not_true_eq_false, if_false], flatten_zip_fst tables labels h, ?_⟩
    have := congrArg List.length (flatten_zip_fst tables labels h)
    rw [List.length_map, List.length_flatten] at this
    exact this

theorem flattenDfs_labels {α L} (tables : List (List α)) (labels : List L) (out : List (α × L))
    (h : flattenDfs tables labels = .ok out) (p : α × L) (hp : p ∈ out) :
    ∃ (i : Nat) (t : List α) (l : L), tables[i]? = some t ∧ labels[i]? = some l ∧ p.1 ∈ t ∧ p.2 = l := by
  unfold flattenDfs at h
  split at h
  · cases h
  · cases h
    rw [List.mem_flatMap] at hp
    obtain ⟨⟨t, l⟩, htl, hp⟩ := hp
    obtain ⟨i, hi, hget⟩ := List.getElem_of_mem htl
    rw [List.getElem_zip] at hget
    simp only [List.length_zip, Nat.lt_min] at hi
    simp only [Prod.mk.injEq] at hget
    simp only [List.mem_map] at hp
    obtain ⟨r, hr, rfl⟩ := hp
    exact ⟨i, t, l, by rw [List.getElem?_eq_getElem hi.1, hget.1], by rw [List.getElem?_eq_getElem hi.2, hget.2], hr, rfl⟩

end Bycycle
