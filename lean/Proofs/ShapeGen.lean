import BycycleModel.ShapeGen
/-!
# The translated shape arithmetic equals the hand-written transcription (tie for C04)
-/
namespace Bycycle
namespace ShapeGenAux

theorem evalS_sigAt_int (sig : List Rat) (r : SampleRow) (e : SExpr) (i : Int) (h : evalS sig r e = .ok (.fin (i : Rat))) :
    evalS sig r (.sigAt e) = (pyIdx sig i).map F.fin := by
  simp [evalS, h, bind, Except.bind, Rat.den_intCast, Rat.num_intCast]

theorem evalS_sub (sig : List Rat) (r : SampleRow) (a b : SExpr) (x y : Rat) (ha : evalS sig r a = .ok (.fin x)) (hb : evalS sig r b = .ok (.fin y)) :
    evalS sig r (.sub a b) = .ok (.fin (x - y)) := by
  simp [evalS, ha, hb, bind, Except.bind]
theorem evalS_add (sig : List Rat) (r : SampleRow) (a b : SExpr) (x y : Rat) (ha : evalS sig r a = .ok (.fin x)) (hb : evalS sig r b = .ok (.fin y)) :
    evalS sig r (.add a b) = .ok (.fin (x + y)) := by
  simp [evalS, ha, hb, bind, Except.bind]
theorem evalS_div (sig : List Rat) (r : SampleRow) (a b : SExpr) (x y : Rat) (ha : evalS sig r a = .ok (.fin x)) (hb : evalS sig r b = .ok (.fin y)) :
    evalS sig r (.div a b) = .ok (F.divRat x y) := by
  simp [evalS, ha, hb, bind, Except.bind]

theorem shapeOfRow_ok (sig : List Rat) (r : SampleRow) (s : ShapeRow) (h : shapeOfRow sig r = .ok s) :
    ∃ vp vl vn, pyIdx sig r.peak = .ok vp ∧ pyIdx sig r.lastTrough = .ok vl ∧ pyIdx sig r.nextTrough = .ok vn ∧
      s = { period := r.nextTrough - r.lastTrough, timePeak := r.zeroxDecay - r.zeroxRise, timeTrough := r.zeroxRise - r.lastZeroxDecay,
            voltPeak := vp, voltTrough := vl,
            timeDecay := r.nextTrough - r.peak, timeRise := r.peak - r.lastTrough, voltDecay := vp - vn, voltRise := vp - vl,
            voltAmp := ((vp - vn) + (vp - vl)) / 2,
            timeRdsym := F.divRat ((r.peak - r.lastTrough : Int) : Rat) ((r.nextTrough - r.lastTrough : Int) : Rat),
            timePtsym := F.divRat ((r.zeroxDecay - r.zeroxRise : Int) : Rat) (((r.zeroxDecay - r.zeroxRise : Int) : Rat) + ((r.zeroxRise - r.lastZeroxDecay : Int) : Rat)),
            bandAmp := .nan } := by
  unfold shapeOfRow at h
  cases hp : pyIdx sig r.peak with
  | error e => simp [hp, bind, Except.bind] at h
  | ok vp =>
    cases hl : pyIdx sig r.lastTrough with
    | error e => simp [hp, hl, bind, Except.bind] at h
    | ok vl =>
      cases hn : pyIdx sig r.nextTrough with
      | error e => simp [hp, hl, hn, bind, Except.bind] at h
      | ok vn =>
        simp only [hp, hl, hn, bind, Except.bind] at h
        refine ⟨vp, vl, vn, rfl, rfl, rfl, ?_⟩
        injection h with h
        exact h.symm


section cols
variable (sig : List Rat) (r : SampleRow)
theorem col_peak : evalS sig r (.col "sample_peak") = .ok (.fin (r.peak : Rat)) := rfl
theorem col_lzd : evalS sig r (.col "sample_last_zerox_decay") = .ok (.fin (r.lastZeroxDecay : Rat)) := rfl
theorem col_zd : evalS sig r (.col "sample_zerox_decay") = .ok (.fin (r.zeroxDecay : Rat)) := rfl
theorem col_zr : evalS sig r (.col "sample_zerox_rise") = .ok (.fin (r.zeroxRise : Rat)) := rfl
theorem col_lt : evalS sig r (.col "sample_last_trough") = .ok (.fin (r.lastTrough : Rat)) := rfl
theorem col_nt : evalS sig r (.col "sample_next_trough") = .ok (.fin (r.nextTrough : Rat)) := rfl

theorem sig_peak : evalS sig r (.sigAt (.col "sample_peak")) = (pyIdx sig r.peak).map F.fin :=
  evalS_sigAt_int _ _ _ _ (col_peak sig r)
theorem sig_lt : evalS sig r (.sigAt (.col "sample_last_trough")) = (pyIdx sig r.lastTrough).map F.fin :=
  evalS_sigAt_int _ _ _ _ (col_lt sig r)
theorem sig_nt : evalS sig r (.sigAt (.col "sample_next_trough")) = (pyIdx sig r.nextTrough).map F.fin :=
  evalS_sigAt_int _ _ _ _ (col_nt sig r)

theorem gen_period : genCol sig r "period" = .ok (.fin ((r.nextTrough : Rat) - r.lastTrough)) := by
  have : genCol sig r "period" = evalS sig r (.sub (.col "sample_next_trough") (.col "sample_last_trough")) := by
    simp [genCol, Slots.shapeDefs]
  rw [this]; exact evalS_sub _ _ _ _ _ _ (col_nt sig r) (col_lt sig r)
theorem gen_time_peak : genCol sig r "time_peak" = .ok (.fin ((r.zeroxDecay : Rat) - r.zeroxRise)) := by
  have : genCol sig r "time_peak" = evalS sig r (.sub (.col "sample_zerox_decay") (.col "sample_zerox_rise")) := by
    simp [genCol, Slots.shapeDefs]
  rw [this]; exact evalS_sub _ _ _ _ _ _ (col_zd sig r) (col_zr sig r)
theorem gen_time_trough : genCol sig r "time_trough" = .ok (.fin ((r.zeroxRise : Rat) - r.lastZeroxDecay)) := by
  have : genCol sig r "time_trough" = evalS sig r (.sub (.col "sample_zerox_rise") (.col "sample_last_zerox_decay")) := by
    simp [genCol, Slots.shapeDefs]
  rw [this]; exact evalS_sub _ _ _ _ _ _ (col_zr sig r) (col_lzd sig r)
theorem gen_volt_peak : genCol sig r "volt_peak" = (pyIdx sig r.peak).map F.fin := by
  have : genCol sig r "volt_peak" = evalS sig r (.sigAt (.col "sample_peak")) := by
    simp [genCol, Slots.shapeDefs]
  rw [this]; exact sig_peak sig r
theorem gen_volt_trough : genCol sig r "volt_trough" = (pyIdx sig r.lastTrough).map F.fin := by
  have : genCol sig r "volt_trough" = evalS sig r (.sigAt (.col "sample_last_trough")) := by
    simp [genCol, Slots.shapeDefs]
  rw [this]; exact sig_lt sig r
theorem gen_time_decay : genCol sig r "time_decay" = .ok (.fin ((r.nextTrough : Rat) - r.peak)) := by
  have : genCol sig r "time_decay" = evalS sig r (.sub (.col "sample_next_trough") (.col "sample_peak")) := by
    simp [genCol, Slots.shapeDefs]
  rw [this]; exact evalS_sub _ _ _ _ _ _ (col_nt sig r) (col_peak sig r)
theorem gen_time_rise : genCol sig r "time_rise" = .ok (.fin ((r.peak : Rat) - r.lastTrough)) := by
  have : genCol sig r "time_rise" = evalS sig r (.sub (.col "sample_peak") (.col "sample_last_trough")) := by
    simp [genCol, Slots.shapeDefs]
  rw [this]; exact evalS_sub _ _ _ _ _ _ (col_peak sig r) (col_lt sig r)
theorem gen_volt_decay_def : genCol sig r "volt_decay" =
    evalS sig r (.sub (.sigAt (.col "sample_peak")) (.sigAt (.col "sample_next_trough"))) := by
  simp [genCol, Slots.shapeDefs]
theorem gen_volt_rise_def : genCol sig r "volt_rise" =
    evalS sig r (.sub (.sigAt (.col "sample_peak")) (.sigAt (.col "sample_last_trough"))) := by
  simp [genCol, Slots.shapeDefs]
theorem gen_volt_amp_def : genCol sig r "volt_amp" =
    evalS sig r (.div (.add (.sub (.sigAt (.col "sample_peak")) (.sigAt (.col "sample_next_trough"))) (.sub (.sigAt (.col "sample_peak")) (.sigAt (.col "sample_last_trough")))) (.const (2 : Rat))) := by
  simp [genCol, Slots.shapeDefs]
theorem gen_time_rdsym : genCol sig r "time_rdsym" =
    .ok (F.divRat ((r.peak : Rat) - r.lastTrough) ((r.nextTrough : Rat) - r.lastTrough)) := by
  have : genCol sig r "time_rdsym" = evalS sig r (.div (.sub (.col "sample_peak") (.col "sample_last_trough")) (.sub (.col "sample_next_trough") (.col "sample_last_trough"))) := by
    simp [genCol, Slots.shapeDefs]
  rw [this]
  exact evalS_div _ _ _ _ _ _ (evalS_sub _ _ _ _ _ _ (col_peak sig r) (col_lt sig r)) (evalS_sub _ _ _ _ _ _ (col_nt sig r) (col_lt sig r))
theorem gen_time_ptsym : genCol sig r "time_ptsym" =
    .ok (F.divRat ((r.zeroxDecay : Rat) - r.zeroxRise) (((r.zeroxDecay : Rat) - r.zeroxRise) + ((r.zeroxRise : Rat) - r.lastZeroxDecay))) := by
  have : genCol sig r "time_ptsym" = evalS sig r (.div (.sub (.col "sample_zerox_decay") (.col "sample_zerox_rise")) (.add (.sub (.col "sample_zerox_decay") (.col "sample_zerox_rise")) (.sub (.col "sample_zerox_rise") (.col "sample_last_zerox_decay")))) := by
    simp [genCol, Slots.shapeDefs]
  rw [this]
  have h1 := evalS_sub _ _ _ _ _ _ (col_zd sig r) (col_zr sig r)
  have h2 := evalS_sub _ _ _ _ _ _ (col_zr sig r) (col_lzd sig r)
  exact evalS_div _ _ _ _ _ _ h1 (evalS_add _ _ _ _ _ _ h1 h2)
end cols

theorem toInt_sub (a b : Int) : F.toInt (.fin ((a : Rat) - b)) = a - b := by
  simp only [F.toInt, F.toRat, ← Rat.intCast_sub, Rat.floor_intCast]

end ShapeGenAux
open ShapeGenAux

/-- whenever the hand-written row arithmetic succeeds, the arithmetic TRANSLATED from the current source
gives the same row. -/
theorem shapeOfRowGen_eq (sig : List Rat) (r : SampleRow) (s : ShapeRow) (h : shapeOfRow sig r = .ok s) :
    shapeOfRowGen sig r = .ok s := by
  obtain ⟨vp, vl, vn, hp, hl, hn, rfl⟩ := shapeOfRow_ok sig r s h
  have sp : evalS sig r (.sigAt (.col "sample_peak")) = .ok (.fin vp) := by rw [sig_peak, hp]; rfl
  have sl : evalS sig r (.sigAt (.col "sample_last_trough")) = .ok (.fin vl) := by rw [sig_lt, hl]; rfl
  have sn : evalS sig r (.sigAt (.col "sample_next_trough")) = .ok (.fin vn) := by rw [sig_nt, hn]; rfl
  have hd := evalS_sub _ _ _ _ _ _ sp sn
  have hr := evalS_sub _ _ _ _ _ _ sp sl
  have h2 : evalS sig r (.const (2 : Rat)) = .ok (.fin 2) := rfl
  have ha := evalS_div _ _ _ _ _ _ (evalS_add _ _ _ _ _ _ hd hr) h2
  have hdiv : F.divRat (vp - vn + (vp - vl)) 2 = .fin ((vp - vn + (vp - vl)) / 2) := by
    simp [F.divRat]
  rw [hdiv] at ha
  unfold shapeOfRowGen
  rw [gen_period, gen_time_peak, gen_time_trough, gen_volt_peak, gen_volt_trough, gen_time_decay, gen_time_rise,
    gen_volt_decay_def, gen_volt_rise_def, gen_volt_amp_def, gen_time_rdsym, gen_time_ptsym, hd, hr, ha, hp, hl]
  simp only [bind, Except.bind, Except.map, toInt_sub, F.toRat, Rat.intCast_sub]

/-- and it fails exactly when the hand-written one does (a signal look-up outside the array). -/
theorem shapeOfRowGen_error (sig : List Rat) (r : SampleRow) (e : Err) (h : shapeOfRow sig r = .error e) :
    ∃ e', shapeOfRowGen sig r = .error e' := by
  unfold shapeOfRowGen
  rw [gen_period, gen_time_peak, gen_time_trough, gen_volt_peak, gen_volt_trough, gen_time_decay, gen_time_rise,
    gen_volt_decay_def]
  unfold shapeOfRow at h
  cases hp : pyIdx sig r.peak with
  | error e => exact ⟨e, by simp [bind, Except.bind, Except.map]⟩
  | ok vp =>
    cases hl : pyIdx sig r.lastTrough with
    | error e => exact ⟨e, by simp [bind, Except.bind, Except.map]⟩
    | ok vl =>
      cases hn : pyIdx sig r.nextTrough with
      | error e =>
        have sp : evalS sig r (.sigAt (.col "sample_peak")) = .ok (.fin vp) := by rw [sig_peak, hp]; rfl
        have sn : evalS sig r (.sigAt (.col "sample_next_trough")) = .error e := by rw [sig_nt, hn]; rfl
        have : evalS sig r (.sub (.sigAt (.col "sample_peak")) (.sigAt (.col "sample_next_trough"))) = .error e := by
          unfold evalS
          simp only [sp, sn, bind, Except.bind]
        exact ⟨e, by simp [this, bind, Except.bind, Except.map]⟩
      | ok vn => simp [hp, hl, hn, bind, Except.bind] at h

theorem mapM_ok_of_imp {α β : Type} (f g : α → Except Err β) (hfg : ∀ a b, f a = .ok b → g a = .ok b) :
    ∀ (l : List α) (l' : List β), l.mapM f = .ok l' → l.mapM g = .ok l'
  | [], l', h => by simpa using h
  | a :: t, l', h => by
    rw [List.mapM_cons] at h ⊢
    cases hfa : f a with
    | error e => simp [hfa, bind, Except.bind] at h
    | ok b =>
      cases ht : t.mapM f with
      | error e => simp [hfa, ht, bind, Except.bind] at h
      | ok t' =>
        rw [hfg a b hfa, mapM_ok_of_imp f g hfg t t' ht]
        simpa [hfa, ht, bind, Except.bind] using h

theorem shapePeakGen_eq (sig amp : List Rat) (rows : List SampleRow) (l : List ShapeRow)
    (h : shapePeak sig amp rows = .ok l) : shapePeakGen sig amp rows = .ok l := by
  unfold shapePeak at h
  unfold shapePeakGen
  cases hm : rows.mapM (shapeOfRow sig) with
  | error e => simp [hm, bind, Except.bind] at h
  | ok sh =>
    rw [mapM_ok_of_imp _ _ (shapeOfRowGen_eq sig) rows sh hm]
    rw [hm] at h
    exact h

theorem shapeFeaturesGen_eq (c : Centre) (sig amp : List Rat) (rows : List SampleRow) (l : List ShapeRow)
    (h : shapeFeatures c sig amp rows = .ok l) : shapeFeaturesGen c sig amp rows = .ok l := by
  cases c with
  | peak => exact shapePeakGen_eq sig amp rows l h
  | trough =>
    unfold shapeFeatures at h
    unfold shapeFeaturesGen
    cases hs : shapePeak sig amp rows with
    | error e => simp [hs, Except.map] at h
    | ok l0 =>
      simp only [shapePeakGen_eq sig amp rows l0 hs]
      simpa [hs] using h

end Bycycle
