import BycycleModel.Phase
import Mathlib.Tactic.Linarith
import Mathlib.Tactic.Ring
import Mathlib.Tactic.FieldSimp
import Mathlib.Tactic.Positivity
import Mathlib.Algebra.Order.Field.Basic
import Mathlib.Data.Rat.Cast.Order
/-!
# Auxiliary lemmas for C17 (interpolated phase): anchor list, `np.interp` spec, merge unfolding
-/
namespace Bycycle

theorem mem_anchorList' (arr : List (Option Int)) (i : Nat) (v : Int) : (i, v) ∈ anchorList arr ↔ arr[i]? = some (some v) := by
  unfold anchorList
  rw [List.mem_filterMap]
  constructor
  · rintro ⟨⟨o, j⟩, hm, hf⟩
    rw [List.mem_zipIdx_iff_getElem?] at hm
    cases o with
    | none => simp at hf
    | some x =>
      simp at hf
      obtain ⟨rfl, rfl⟩ := hf
      simpa using hm
  · intro h
    refine ⟨(some v, i), ?_, by simp⟩
    rw [List.mem_zipIdx_iff_getElem?]
    simpa using h

theorem anchorList_sorted_aux (arr : List (Option Int)) (k : Nat) :
    ((arr.zipIdx k).filterMap fun (v, i) => v.map fun x => (i, x)).Pairwise (fun a b => a.1 < b.1) ∧
    ∀ p ∈ ((arr.zipIdx k).filterMap fun (v, i) => v.map fun x => (i, x)), k ≤ p.1 := by
  induction arr generalizing k with
  | nil => simp
  | cons a as ih =>
    obtain ⟨ih1, ih2⟩ := ih (k + 1)
    rw [List.zipIdx_cons]
    cases a with
    | none =>
      simp only [List.filterMap_cons, Option.map_none]
      exact ⟨ih1, fun p hp => by have := ih2 p hp; omega⟩
    | some x =>
      simp only [List.filterMap_cons, Option.map_some]
      refine ⟨List.pairwise_cons.2 ⟨fun p hp => ?_, ih1⟩, fun p hp => ?_⟩
      · have := ih2 p hp; simp; omega
      · rcases List.mem_cons.1 hp with rfl | hp
        · simp
        · have := ih2 p hp; omega

theorem anchorList_sorted' (arr : List (Option Int)) : ((anchorList arr).map (·.1)).Pairwise (· < ·) := by
  rw [List.pairwise_map]
  exact (anchorList_sorted_aux arr 0).1

theorem go_nil (t : Nat) (x v : Rat) : interpAt.go t x v [] = v := by
  simp [interpAt.go]

theorem go_cons (t : Nat) (x v : Rat) (x' : Nat) (v' : Rat) (more : List (Nat × Rat)) :
    interpAt.go t x v ((x', v') :: more) =
      if (t : Rat) < x' then v + (v' - v) * ((t : Rat) - x) / ((x' : Rat) - x) else interpAt.go t x' v' more := by
  simp [interpAt.go]

/-- at the current anchor position, `go` returns the current value when all later positions are larger. -/
theorem go_self (x : Nat) (v : Rat) (more : List (Nat × Rat)) (h : ∀ p ∈ more, x < p.1) :
    interpAt.go x x v more = v := by
  cases more with
  | nil => exact go_nil _ _ _
  | cons p more =>
    obtain ⟨x2, v2⟩ := p
    rw [go_cons]
    have : x < x2 := h (x2, v2) (by simp)
    have h2 : (x : Rat) < x2 := by exact_mod_cast this
    rw [if_pos h2]
    simp

theorem go_anchor (rest : List (Nat × Rat)) (hs : (rest.map (·.1)).Pairwise (· < ·)) (x : Nat) (v : Rat)
    (hm : (x, v) ∈ rest) (a b : Rat) : interpAt.go x a b rest = v := by
  induction rest generalizing a b with
  | nil => simp at hm
  | cons p more ih =>
    obtain ⟨x1, v1⟩ := p
    rw [List.map_cons, List.pairwise_cons] at hs
    obtain ⟨hs1, hs2⟩ := hs
    rw [go_cons]
    rcases List.mem_cons.1 hm with heq | hm'
    · obtain ⟨rfl, rfl⟩ := Prod.mk.inj heq
      rw [if_neg (lt_irrefl _)]
      apply go_self
      intro p hp
      exact hs1 p.1 (List.mem_map.2 ⟨p, hp, rfl⟩)
    · have : x1 < x := hs1 x (List.mem_map.2 ⟨(x, v), hm', rfl⟩)
      have h2 : ¬ ((x : Rat) < x1) := by
        have : (x1 : Rat) < x := by exact_mod_cast this
        linarith
      rw [if_neg h2]
      exact ih hs2 hm' _ _

theorem interpAt_anchor' (anchors : List (Nat × Rat)) (hs : (anchors.map (·.1)).Pairwise (· < ·)) (x : Nat) (v : Rat)
    (hm : (x, v) ∈ anchors) : interpAt anchors x = v := by
  cases anchors with
  | nil => simp at hm
  | cons p rest =>
    obtain ⟨x0, v0⟩ := p
    rw [List.map_cons, List.pairwise_cons] at hs
    obtain ⟨hs1, hs2⟩ := hs
    unfold interpAt
    rcases List.mem_cons.1 hm with heq | hm'
    · obtain ⟨rfl, rfl⟩ := Prod.mk.inj heq
      simp
    · have : x0 < x := hs1 x (List.mem_map.2 ⟨(x, v), hm', rfl⟩)
      simp only
      rw [if_neg (by omega)]
      exact go_anchor rest hs2 x v hm' _ _

theorem lerp_bounds (lo hi v v' t x x' : Rat) (hv : lo ≤ v ∧ v ≤ hi) (hv' : lo ≤ v' ∧ v' ≤ hi)
    (hx : x ≤ t) (ht : t < x') :
    lo ≤ v + (v' - v) * (t - x) / (x' - x) ∧ v + (v' - v) * (t - x) / (x' - x) ≤ hi := by
  have hd : 0 < x' - x := by linarith
  rw [mul_div_assoc]
  have hs0 : 0 ≤ (t - x) / (x' - x) := div_nonneg (by linarith) hd.le
  have hs1 : (t - x) / (x' - x) ≤ 1 := (div_le_one hd).2 (by linarith)
  generalize (t - x) / (x' - x) = s at hs0 hs1
  constructor
  · nlinarith [mul_nonneg hs0 (sub_nonneg.2 hv'.1), mul_nonneg (sub_nonneg.2 hs1) (sub_nonneg.2 hv.1)]
  · nlinarith [mul_nonneg hs0 (sub_nonneg.2 hv'.2), mul_nonneg (sub_nonneg.2 hs1) (sub_nonneg.2 hv.2)]

theorem go_bounds (lo hi : Rat) (t : Nat) (l : List (Nat × Rat)) (hb : ∀ p ∈ l, lo ≤ p.2 ∧ p.2 ≤ hi)
    (x : Nat) (v : Rat) (hv : lo ≤ v ∧ v ≤ hi) (hx : x ≤ t) :
    lo ≤ interpAt.go t x v l ∧ interpAt.go t x v l ≤ hi := by
  induction l generalizing x v with
  | nil => rw [go_nil]; exact hv
  | cons p more ih =>
    obtain ⟨x1, v1⟩ := p
    rw [go_cons]
    have hv1 := hb (x1, v1) (by simp)
    split
    · rename_i hlt
      exact lerp_bounds lo hi v v1 t x x1 hv hv1 (by exact_mod_cast hx) hlt
    · rename_i hlt
      apply ih (fun p hp => hb p (List.mem_cons_of_mem _ hp)) x1 v1 hv1
      have : (x1 : Rat) ≤ t := not_lt.1 hlt
      exact_mod_cast this

theorem interpAt_bounds' (anchors : List (Nat × Rat)) (hs : (anchors.map (·.1)).Pairwise (· < ·)) (hne : anchors ≠ [])
    (lo hi : Rat) (hb : ∀ p ∈ anchors, lo ≤ p.2 ∧ p.2 ≤ hi) (t : Nat) : lo ≤ interpAt anchors t ∧ interpAt anchors t ≤ hi := by
  cases anchors with
  | nil => exact absurd rfl hne
  | cons p rest =>
    obtain ⟨x0, v0⟩ := p
    unfold interpAt
    simp only
    have hv0 := hb (x0, v0) (by simp)
    split
    · exact hv0
    · rename_i hle
      exact go_bounds lo hi t rest (fun p hp => hb p (List.mem_cons_of_mem _ hp)) x0 v0 hv0 (by omega)

theorem go_segment (t : Nat) (l1 : List (Nat × Rat)) (x : Nat) (v : Rat) (x' : Nat) (v' : Rat) (l2 : List (Nat × Rat))
    (hs : ((l1 ++ (x, v) :: (x', v') :: l2).map (·.1)).Pairwise (· < ·)) (hx : x ≤ t) (hx' : t < x') (a b : Rat) :
    interpAt.go t a b (l1 ++ (x, v) :: (x', v') :: l2) = v + (v' - v) * ((t : Rat) - x) / ((x' : Rat) - x) := by
  induction l1 generalizing a b with
  | nil =>
    rw [List.nil_append, go_cons, if_neg (by have : (x : Rat) ≤ t := by exact_mod_cast hx
                                             linarith), go_cons,
      if_pos (by exact_mod_cast hx')]
  | cons p l1 ih =>
    obtain ⟨y, w⟩ := p
    rw [List.cons_append, List.map_cons, List.pairwise_cons] at hs
    have hy : y < x := hs.1 x (by simp)
    rw [List.cons_append, go_cons, if_neg (by have : (y : Rat) < t := by exact_mod_cast (show y < t by omega)
                                              linarith)]
    exact ih hs.2 _ _

/-- closed-segment formula. -/
theorem interpAt_segment (t : Nat) (l1 : List (Nat × Rat)) (x : Nat) (v : Rat) (x' : Nat) (v' : Rat) (l2 : List (Nat × Rat))
    (hs : ((l1 ++ (x, v) :: (x', v') :: l2).map (·.1)).Pairwise (· < ·)) (hx : x ≤ t) (hx' : t ≤ x') :
    interpAt (l1 ++ (x, v) :: (x', v') :: l2) t = v + (v' - v) * ((t : Rat) - x) / ((x' : Rat) - x) := by
  have hxx' : x < x' := by
    have := hs
    rw [List.map_append, List.pairwise_append] at this
    have := this.2.1
    simp at this
    exact this.1.1
  have hxx'r : (x : Rat) < x' := by exact_mod_cast hxx'
  rcases Nat.lt_or_ge t x' with hlt | hge
  · cases l1 with
    | nil =>
      rw [List.nil_append]
      unfold interpAt
      simp only
      split
      · have : t = x := by omega
        subst this
        simp
      · rw [go_cons, if_pos (by exact_mod_cast hlt)]
    | cons p l1 =>
      obtain ⟨y, w⟩ := p
      have hs' := hs
      rw [List.cons_append, List.map_cons, List.pairwise_cons] at hs'
      have hy : y < x := hs'.1 x (by simp)
      rw [List.cons_append]
      unfold interpAt
      simp only
      rw [if_neg (by omega)]
      exact go_segment t l1 x v x' v' l2 hs'.2 hx hlt _ _
  · have : t = x' := by omega
    subst this
    rw [interpAt_anchor' _ hs t v' (by simp)]
    have : (t : Rat) - x ≠ 0 := by linarith
    field_simp
    ring

/-- recoding of an anchor code in the branch with trough value `tv`. -/
def recode (tv : Rat) (v : Int) : Rat := if v = -2 then tv else (v : Rat)

/-- the anchors of the branch with trough value `tv`. -/
def An (arr : List (Option Int)) (tv : Rat) : List (Nat × Rat) :=
  (anchorList arr).map fun p => (p.1, recode tv p.2)

def firstPos (arr : List (Option Int)) : Nat := ((anchorList arr).head?.map (·.1)).getD 0
def lastPos (arr : List (Option Int)) : Nat := ((anchorList arr).getLast?.map (·.1)).getD 0

def phaseVal (arr : List (Option Int)) (t : Nat) : Option Rat :=
  if t < firstPos arr ∨ lastPos arr < t then none
  else if t + 1 < arr.length then
    (if interpAt (An arr (-2)) (t + 1) - interpAt (An arr (-2)) t < 0 then some (interpAt (An arr 2) t)
     else some (interpAt (An arr (-2)) t))
  else some (interpAt (An arr (-2)) t)

theorem branch_getD (arr : List (Option Int)) (tv : Rat) (t : Nat) (ht : t < arr.length) :
    (branch arr tv).getD t 0 = interpAt (An arr tv) t := by
  unfold branch An recode
  simp [List.getD_eq_getElem?_getD, List.getElem?_map, List.getElem?_range ht]

theorem phaseOfArray_eq (arr : List (Option Int)) (hne : anchorList arr ≠ []) :
    phaseOfArray arr = .ok ((List.range arr.length).map (phaseVal arr)) := by
  unfold phaseOfArray
  split
  · contradiction
  · simp only
    congr 1
    apply List.map_congr_left
    intro t ht
    rw [List.mem_range] at ht
    unfold phaseVal firstPos lastPos
    split
    · rfl
    · by_cases h1 : t + 1 < arr.length
      · simp only [if_pos h1]
        rw [branch_getD arr _ t ht, branch_getD arr _ (t+1) h1, branch_getD arr _ t ht]
      · simp only [if_neg h1]
        rw [branch_getD arr _ t ht]

theorem phaseOfArray_ok (arr : List (Option Int)) (pha : List (Option Rat)) (h : phaseOfArray arr = .ok pha) :
    anchorList arr ≠ [] ∧ pha = (List.range arr.length).map (phaseVal arr) := by
  by_cases hne : anchorList arr = []
  · unfold phaseOfArray at h
    rw [hne] at h
    simp at h
  · rw [phaseOfArray_eq arr hne] at h
    exact ⟨hne, (Except.ok.inj h).symm⟩

theorem pha_getElem? (arr : List (Option Int)) (pha : List (Option Rat)) (h : phaseOfArray arr = .ok pha) (t : Nat) :
    pha[t]? = if t < arr.length then some (phaseVal arr t) else none := by
  rw [(phaseOfArray_ok arr pha h).2]
  split
  · rename_i ht; simp [List.getElem?_map, List.getElem?_range ht]
  · rename_i ht; simp; omega

def headPos (L : List (Nat × Int)) : Nat := (L.head?.map (·.1)).getD 0
def endPos (L : List (Nat × Int)) : Nat := (L.getLast?.map (·.1)).getD 0

theorem headPos_le (L : List (Nat × Int)) (hs : (L.map (·.1)).Pairwise (· < ·)) (q : Nat × Int) (hq : q ∈ L) :
    headPos L ≤ q.1 := by
  cases L with
  | nil => simp at hq
  | cons p rest =>
    rw [List.map_cons, List.pairwise_cons] at hs
    simp only [headPos, List.head?_cons, Option.map_some, Option.getD_some]
    rcases List.mem_cons.1 hq with rfl | hq
    · exact le_refl _
    · exact (hs.1 q.1 (List.mem_map.2 ⟨q, hq, rfl⟩)).le

theorem le_endPos (L : List (Nat × Int)) (hs : (L.map (·.1)).Pairwise (· < ·)) (q : Nat × Int) (hq : q ∈ L) :
    q.1 ≤ endPos L := by
  induction L generalizing q with
  | nil => simp at hq
  | cons p rest ih =>
    rw [List.map_cons, List.pairwise_cons] at hs
    cases rest with
    | nil =>
      simp at hq
      subst hq
      simp [endPos]
    | cons r rest' =>
      have e : endPos (p :: r :: rest') = endPos (r :: rest') := by
        simp [endPos, List.getLast?_cons_cons]
      rw [e]
      rcases List.mem_cons.1 hq with rfl | hq
      · have h1 : q.1 < r.1 := hs.1 r.1 (by simp)
        have h2 := ih hs.2 r (by simp : r ∈ r :: rest')
        omega
      · exact ih hs.2 q hq

theorem headPos_mem (L : List (Nat × Int)) (hne : L ≠ []) : ∃ v, (headPos L, v) ∈ L := by
  cases L with
  | nil => exact absurd rfl hne
  | cons p rest => exact ⟨p.2, by simp [headPos]⟩

theorem endPos_mem (L : List (Nat × Int)) (hne : L ≠ []) : ∃ v, (endPos L, v) ∈ L := by
  refine ⟨(L.getLast hne).2, ?_⟩
  have : endPos L = (L.getLast hne).1 := by
    simp [endPos, List.getLast?_eq_getLast_of_ne_nil hne]
  rw [this]
  exact List.getLast_mem hne

theorem exists_segment (L : List (Nat × Int)) (t : Nat) (h1 : headPos L ≤ t) (h2 : t + 1 ≤ endPos L) :
    ∃ l1 x v x' v' l2, L = l1 ++ (x, v) :: (x', v') :: l2 ∧ x ≤ t ∧ t + 1 ≤ x' := by
  induction L with
  | nil => simp [endPos] at h2
  | cons p rest ih =>
    cases rest with
    | nil =>
      simp [endPos] at h2
      simp [headPos] at h1
      omega
    | cons q rest' =>
      have e : endPos (p :: q :: rest') = endPos (q :: rest') := by
        simp [endPos, List.getLast?_cons_cons]
      by_cases hq : t < q.1
      · exact ⟨[], p.1, p.2, q.1, q.2, rest', rfl, by simpa [headPos] using h1, hq⟩
      · obtain ⟨l1, x, v, x', v', l2, hL, hx, hx'⟩ := ih (by simp [headPos]; omega) (by rw [← e]; exact h2)
        exact ⟨p :: l1, x, v, x', v', l2, by rw [hL]; rfl, hx, hx'⟩

theorem validAnchors_segment (l1 : List (Nat × Int)) (x : Nat) (v : Int) (x' : Nat) (v' : Int) (l2 : List (Nat × Int))
    (h : validAnchors (l1 ++ (x, v) :: (x', v') :: l2) = true) : stepOk v v' = true := by
  induction l1 with
  | nil =>
    simp [validAnchors] at h
    exact h.1
  | cons p l1 ih =>
    cases l1 with
    | nil =>
      obtain ⟨j, w⟩ := p
      simp only [List.cons_append, List.nil_append, validAnchors, Bool.and_eq_true] at h
      exact h.2.1
    | cons q l1' =>
      obtain ⟨j, w⟩ := p
      obtain ⟨j', w'⟩ := q
      simp only [List.cons_append, validAnchors, Bool.and_eq_true] at h
      exact ih h.2

theorem firstPos_eq (arr : List (Option Int)) : firstPos arr = headPos (anchorList arr) := rfl
theorem lastPos_eq (arr : List (Option Int)) : lastPos arr = endPos (anchorList arr) := rfl

theorem lt_firstPos_iff (arr : List (Option Int)) (hne : anchorList arr ≠ []) (t : Nat) :
    t < firstPos arr ↔ ∀ (i : Nat) (v : Int), i ≤ t → arr[i]? ≠ some (some v) := by
  constructor
  · intro h i v hi ha
    have := headPos_le _ (anchorList_sorted' arr) (i, v) ((mem_anchorList' arr i v).2 ha)
    rw [← firstPos_eq] at this
    simp at this
    omega
  · intro h
    by_contra hc
    obtain ⟨v, hv⟩ := headPos_mem _ hne
    rw [← firstPos_eq] at hv
    exact h _ v (by omega) ((mem_anchorList' arr _ v).1 hv)

theorem lastPos_lt_iff (arr : List (Option Int)) (hne : anchorList arr ≠ []) (t : Nat) :
    lastPos arr < t ↔ ∀ (i : Nat) (v : Int), t ≤ i → arr[i]? ≠ some (some v) := by
  constructor
  · intro h i v hi ha
    have := le_endPos _ (anchorList_sorted' arr) (i, v) ((mem_anchorList' arr i v).2 ha)
    rw [← lastPos_eq] at this
    simp at this
    omega
  · intro h
    by_contra hc
    obtain ⟨v, hv⟩ := endPos_mem _ hne
    rw [← lastPos_eq] at hv
    exact h _ v (by omega) ((mem_anchorList' arr _ v).1 hv)

theorem phaseVal_isNone (arr : List (Option Int)) (t : Nat) :
    (phaseVal arr t).isNone = true ↔ (t < firstPos arr ∨ lastPos arr < t) := by
  unfold phaseVal
  split
  · simp [*]
  · rename_i h
    constructor
    · intro h'
      split at h' <;> [split at h'; skip] <;> simp at h'
    · intro h'; exact absurd h' h

theorem An_sorted (arr : List (Option Int)) (tv : Rat) : ((An arr tv).map (·.1)).Pairwise (· < ·) := by
  have := anchorList_sorted' arr
  unfold An
  rw [List.map_map]
  exact this

theorem An_mem (arr : List (Option Int)) (tv : Rat) (t : Nat) (v : Int) (ha : arr[t]? = some (some v)) :
    (t, recode tv v) ∈ An arr tv := by
  unfold An
  exact List.mem_map.2 ⟨(t, v), (mem_anchorList' arr t v).2 ha, rfl⟩

theorem interpAt_An (arr : List (Option Int)) (tv : Rat) (t : Nat) (v : Int) (ha : arr[t]? = some (some v)) :
    interpAt (An arr tv) t = recode tv v :=
  interpAt_anchor' _ (An_sorted arr tv) t _ (An_mem arr tv t v ha)

theorem An_ne (arr : List (Option Int)) (tv : Rat) (hne : anchorList arr ≠ []) : An arr tv ≠ [] := by
  unfold An; simpa using hne

theorem anchor_in_span (arr : List (Option Int)) (t : Nat) (v : Int) (ha : arr[t]? = some (some v)) :
    ¬ (t < firstPos arr ∨ lastPos arr < t) := by
  have hm := (mem_anchorList' arr t v).2 ha
  have h1 := headPos_le _ (anchorList_sorted' arr) (t, v) hm
  have h2 := le_endPos _ (anchorList_sorted' arr) (t, v) hm
  show ¬ (t < headPos (anchorList arr) ∨ endPos (anchorList arr) < t)
  simp at h1 h2
  omega

theorem phaseVal_cases (arr : List (Option Int)) (t : Nat) (h : ¬ (t < firstPos arr ∨ lastPos arr < t)) :
    phaseVal arr t = some (interpAt (An arr (-2)) t) ∨ phaseVal arr t = some (interpAt (An arr 2) t) := by
  unfold phaseVal
  rw [if_neg h]
  split
  · split
    · exact Or.inr rfl
    · exact Or.inl rfl
  · exact Or.inl rfl

theorem recode_bounds (tv : Rat) (htv : -2 ≤ tv ∧ tv ≤ 2) (v : Int) (hv : -2 ≤ v ∧ v ≤ 1) :
    -2 ≤ recode tv v ∧ recode tv v ≤ 2 := by
  unfold recode
  split
  · exact htv
  · have h1 : ((-2 : Int) : Rat) ≤ v := by exact_mod_cast hv.1
    have h2 : (v : Rat) ≤ ((1 : Int) : Rat) := by exact_mod_cast hv.2
    push_cast at h1 h2
    constructor <;> linarith

theorem setAll_spec (idxs : List Nat) (v : Int) (arr arr' : List (Option Int)) (h : setAll arr idxs v = .ok arr') :
    arr'.length = arr.length ∧ ∀ t, t < arr.length →
      ((t ∈ idxs → arr'[t]? = some (some v)) ∧ (t ∉ idxs → arr'[t]? = arr[t]?)) := by
  induction idxs generalizing arr with
  | nil =>
    simp [setAll, pure, Except.pure] at h
    subst h
    simp
  | cons i rest ih =>
    unfold setAll at h
    rw [List.foldlM_cons] at h
    by_cases hi : i < arr.length
    · rw [if_pos hi] at h
      have h' : setAll (arr.set i (some v)) rest v = .ok arr' := h
      obtain ⟨hl, hs⟩ := ih _ h'
      rw [List.length_set] at hl
      refine ⟨hl, fun t ht => ?_⟩
      obtain ⟨hs1, hs2⟩ := hs t (by rw [List.length_set]; exact ht)
      constructor
      · intro hm
        by_cases hr : t ∈ rest
        · exact hs1 hr
        · rw [hs2 hr]
          have : t = i := by
            rcases List.mem_cons.1 hm with h | h
            · exact h
            · exact absurd h hr
          subst this
          simp [ht]
      · intro hm
        have hti : i ≠ t := fun e => hm (by simp [e])
        have hr : t ∉ rest := fun e => hm (by simp [e])
        rw [hs2 hr, List.getElem?_set_ne hti]
    · rw [if_neg hi] at h
      simp [bind, Except.bind] at h

theorem except_bind_ok {ε α β : Type} (x : Except ε α) (f : α → Except ε β) (b : β) (h : x >>= f = .ok b) :
    ∃ a, x = .ok a ∧ f a = .ok b := by
  cases x with
  | error e => simp [bind, Except.bind] at h
  | ok a => exact ⟨a, rfl, h⟩

theorem optSet_spec (o : Option (List Nat)) (v : Int) (arr arr' : List (Option Int))
    (h : (match o with | some r => setAll arr r v | none => Except.ok arr) = .ok arr') :
    arr'.length = arr.length ∧ ∀ t, t < arr.length →
      ((t ∈ o.getD [] → arr'[t]? = some (some v)) ∧ (t ∉ o.getD [] → arr'[t]? = arr[t]?)) := by
  cases o with
  | none =>
    simp at h
    subst h
    simp
  | some r => exact setAll_spec r v arr arr' h

theorem stepOk_cases (c c' : Int) (h : stepOk c c' = true) :
    (c' ≠ -2 ∧ recode (-2) c ≤ recode (-2) c' ∧ recode 2 c' = recode (-2) c') ∨
    (c' = -2 ∧ recode (-2) c' < recode (-2) c ∧ recode 2 c ≤ recode 2 c') := by
  unfold stepOk at h
  simp only [Bool.or_eq_true, Bool.and_eq_true, beq_iff_eq] at h
  rcases h with ((⟨rfl, rfl | rfl⟩ | ⟨rfl, rfl⟩) | ⟨rfl, rfl | rfl⟩) | ⟨rfl, rfl⟩ <;> norm_num [recode]

/-- the branch with trough value `tv` on a closed segment between consecutive anchors. -/
theorem An_segment (arr : List (Option Int)) (tv : Rat) (l1 : List (Nat × Int)) (x : Nat) (c : Int) (x' : Nat) (c' : Int)
    (l2 : List (Nat × Int)) (hL : anchorList arr = l1 ++ (x, c) :: (x', c') :: l2) (s : Nat) (hx : x ≤ s) (hx' : s ≤ x') :
    interpAt (An arr tv) s = recode tv c + (recode tv c' - recode tv c) * ((s : Rat) - x) / ((x' : Rat) - x) := by
  have hs := An_sorted arr tv
  have e : An arr tv = l1.map (fun p => (p.1, recode tv p.2)) ++ (x, recode tv c) :: (x', recode tv c') ::
      l2.map (fun p => (p.1, recode tv p.2)) := by
    unfold An; rw [hL]; simp
  rw [e] at hs ⊢
  exact interpAt_segment s _ x _ x' _ _ hs hx hx'

theorem lin_step (v v' x x' s : Rat) (h : x < x') :
    (v + (v' - v) * ((s + 1) - x) / (x' - x)) - (v + (v' - v) * (s - x) / (x' - x)) = (v' - v) / (x' - x) := by
  have : x' - x ≠ 0 := by linarith
  field_simp
  ring

end Bycycle
