import BycycleModel.Objs
/-!
# Helper lemmas for C14 (object helpers)
-/
namespace Bycycle

theorem endsWith_append_self (k s : String) : (k ++ s).endsWith s = true := by
  rw [String.endsWith_eq_endsWith_toSlice, String.Slice.endsWith_string_iff]
  simp

theorem expandShorthand_eq (th : List (String × Rat)) :
    expandShorthand th = th.map fun p =>
      if (!p.1.endsWith "_threshold" && p.1 != "min_n_cycles") = true then (p.1 ++ "_threshold", p.2) else p := by
  unfold expandShorthand
  apply List.map_congr_left
  intro ⟨k, v⟩ _
  rfl

theorem expandShorthand_keys (th : List (String × Rat)) (k : String) (v : Rat) (h : (k, v) ∈ expandShorthand th) :
    k.endsWith "_threshold" = true ∨ k = "min_n_cycles" := by
  rw [expandShorthand_eq, List.mem_map] at h
  obtain ⟨⟨k', v'⟩, _, hp⟩ := h
  dsimp only at hp
  split at hp
  · injection hp with h1 h2
    subst h1
    exact Or.inl (endsWith_append_self k' "_threshold")
  · rename_i hc
    injection hp with h1 h2
    subst h1
    simp only [Bool.and_eq_true, Bool.not_eq_true', bne_iff_ne, ne_eq, not_and, Decidable.not_not] at hc
    cases he : k'.endsWith "_threshold" with
    | true => exact Or.inl rfl
    | false => exact Or.inr (hc he)

theorem expandShorthand_values (th : List (String × Rat)) : (expandShorthand th).map (·.2) = th.map (·.2) := by
  rw [expandShorthand_eq, List.map_map]
  apply List.map_congr_left
  intro ⟨k, v⟩ _
  dsimp only [Function.comp]
  split <;> rfl

theorem expandShorthand_full_names (th : List (String × Rat))
    (h : ∀ p ∈ th, p.1.endsWith "_threshold" = true ∨ p.1 = "min_n_cycles") : expandShorthand th = th := by
  rw [expandShorthand_eq]
  conv => rhs; rw [← List.map_id th]
  apply List.map_congr_left
  intro ⟨k, v⟩ hp
  have := h _ hp
  dsimp only at this ⊢
  rw [if_neg]
  · rfl
  · rcases this with h1 | h1
    · simp [h1]
    · simp [h1]

theorem reduceThresholds_spec (th : List (String × Rat)) (r : Option Rat) :
    reduceThresholds th r = th.map fun p => if p.1.endsWith "threshold" then (p.1, p.2 - r.getD 0) else p := by
  unfold reduceThresholds
  apply List.map_congr_left
  intro ⟨k, v⟩ _
  rfl

theorem reduceThresholds_none (th : List (String × Rat)) : reduceThresholds th none = th := by
  rw [reduceThresholds_spec]
  conv => rhs; rw [← List.map_id th]
  apply List.map_congr_left
  intro ⟨k, v⟩ _
  dsimp only [Option.getD_none, id]
  split
  · rw [Rat.sub_eq_add_neg, Rat.neg_zero, Rat.add_zero]
  · rfl

end Bycycle
