import BycycleModel.Zerox
/-! # `find_zerox` does not depend on where in the recording the flanks sit (helper lemmas for `C03_offset`) -/
namespace Bycycle

theorem slice_append_offset {α} (pre sig : List α) (a b : Nat) :
    slice (pre ++ sig) (a + pre.length) (b + pre.length) = slice sig a b := by
  unfold slice
  rw [Nat.add_comm b, List.take_length_add_append, Nat.add_comm a, List.drop_length_add_append]

theorem idx?_map_add (l : List Nat) (k i : Nat) :
    idx? (l.map (· + k)) i = (idx? l i).map (· + k) := by
  unfold idx?
  simp only [List.getElem?_map]
  cases l[i]? <;> rfl

end Bycycle
namespace Bycycle

theorem mapM_congr_range {β} (n : Nat) (f g : Nat → Except Err β) (h : ∀ i, f i = g i) :
    (List.range n).mapM f = (List.range n).mapM g := by
  have : f = g := funext h
  rw [this]

theorem except_mapM_map {α β} (l : List α) (f : α → Except Err β) (g : β → β) :
    l.mapM (fun a => (f a).map g) = (l.mapM f).map (List.map g) := by
  induction l with
  | nil => rfl
  | cons a t ih =>
    simp only [List.mapM_cons, ih]
    cases f a with
    | error e => rfl
    | ok v =>
      cases t.mapM f with
      | error e => rfl
      | ok vs => rfl

theorem findFlankMidpoints_offset (pre sig : List Rat) (f : Flank) (n : Nat) (starts ends : List Nat) (bias : Nat) :
    findFlankMidpoints (pre ++ sig) f n (starts.map (· + pre.length)) (ends.map (· + pre.length)) bias
      = (findFlankMidpoints sig f n starts ends bias).map (List.map (· + pre.length)) := by
  unfold findFlankMidpoints
  rw [← except_mapM_map]
  apply mapM_congr_range
  intro i
  rw [idx?_map_add, idx?_map_add]
  cases idx? starts i with
  | error e => rfl
  | ok s =>
    cases idx? ends (i + bias) with
    | error e => rfl
    | ok e =>
      simp only [Except.map, bind, Except.bind]
      have hs : slice (pre ++ sig) (s + pre.length) (e + pre.length + Slots.flankWindowPlus) = slice sig s (e + Slots.flankWindowPlus) := by
        have : e + pre.length + Slots.flankWindowPlus = (e + Slots.flankWindowPlus) + pre.length := by omega
        rw [this, slice_append_offset]
      rw [hs]
      split
      · rfl
      · congr 1; omega

end Bycycle
namespace Bycycle

theorem findZerox_offset (pre sig : List Rat) (peaks troughs : List Nat) :
    findZerox (pre ++ sig) (peaks.map (· + pre.length)) (troughs.map (· + pre.length))
      = (findZerox sig peaks troughs).map (fun rd => (rd.1.map (· + pre.length), rd.2.map (· + pre.length))) := by
  unfold findZerox
  rw [idx?_map_add, idx?_map_add]
  cases idx? peaks 0 with
  | error e => rfl
  | ok p0 =>
    cases idx? troughs 0 with
    | error e => rfl
    | ok t0 =>
      simp only [Except.map, bind, Except.bind, List.length_map, Nat.add_lt_add_iff_right]
      rw [findFlankMidpoints_offset, findFlankMidpoints_offset]
      cases findFlankMidpoints sig .rise (if decide (p0 < t0) = true then peaks.length - 1 else peaks.length) troughs peaks
          (1 - if decide (p0 < t0) = true then 0 else 1) with
      | error e => rfl
      | ok rises =>
        simp only [Except.map]
        cases findFlankMidpoints sig .decay (if decide (p0 < t0) = true then troughs.length else troughs.length - 1) peaks troughs
            (if decide (p0 < t0) = true then 0 else 1) with
        | error e => rfl
        | ok decays => rfl

end Bycycle
