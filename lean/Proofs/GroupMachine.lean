import BycycleModel.GroupMachine
import Proofs.ObjMachine
/-! # Proofs about the `BycycleGroup` state machine: the models mirror the group's tables and signals -/
namespace Bycycle.Obj

variable {S T : Type}

/-- alignment and mirror at every position. -/
def Good (g : GObj S T) : Prop := aligned g ∧ ∀ i, mirrorAt g i

/-! ## auxiliary lemmas -/

theorem length_replaceAt {α} (l : List α) (i : Nat) (a : α) : (replaceAt l i a).length = l.length := by
  induction l generalizing i with
  | nil => rfl
  | cons b rest ih =>
    cases i with
    | zero => rfl
    | succ n => simp [replaceAt, ih]

theorem getElem?_replaceAt_self {α} (l : List α) (i : Nat) (a b : α) (h : l[i]? = some b) :
    (replaceAt l i a)[i]? = some a := by
  induction l generalizing i with
  | nil => simp at h
  | cons c rest ih =>
    cases i with
    | zero => simp [replaceAt]
    | succ n =>
      simp only [List.getElem?_cons_succ] at h
      simp [replaceAt, ih n h]

theorem getElem?_replaceAt_ne {α} (l : List α) (i j : Nat) (a : α) (h : j ≠ i) :
    (replaceAt l i a)[j]? = l[j]? := by
  induction l generalizing i j with
  | nil => rfl
  | cons c rest ih =>
    cases i with
    | zero =>
      cases j with
      | zero => exact absurd rfl h
      | succ m => simp [replaceAt]
    | succ n =>
      cases j with
      | zero => simp [replaceAt]
      | succ m =>
        simp only [replaceAt, List.getElem?_cons_succ]
        exact ih n m (fun e => h (by rw [e]))

theorem step_edges_sig (A : Api S T) (m : Obj S T) (r : Option Rat) : (step A m (.edges r)).1.sig = m.sig := by
  simp only [step]
  split
  · rfl
  · split <;> rfl

theorem step_edges_df_some (A : Api S T) (m : Obj S T) (r : Option Rat) (t : T) (h : m.df = some t) :
    ∃ t', (step A m (.edges r)).1.df = some t' := by
  simp only [step, h]
  split
  · exact ⟨_, rfl⟩
  · exact ⟨_, h⟩

/-- the loop keeps the lengths, the pairing `model.df = some table` position by position, and every `sig`. -/
theorem edgesLoop_spec (A : Api S T) (r : Option Rat) (ms : List (Obj S T)) (ds : List T)
    (hl : ms.length = ds.length)
    (hm : ∀ (i : Nat) (m : Obj S T), ms[i]? = some m → ∃ t, ds[i]? = some t ∧ m.df = some t) :
    (edgesLoop A r ms ds).1.length = ms.length ∧ (edgesLoop A r ms ds).2.1.length = ds.length ∧
    (∀ (i : Nat) (m : Obj S T), (edgesLoop A r ms ds).1[i]? = some m → ∃ t, (edgesLoop A r ms ds).2.1[i]? = some t ∧ m.df = some t) ∧
    (edgesLoop A r ms ds).1.map (·.sig) = ms.map (·.sig) := by
  induction ms generalizing ds with
  | nil => simp [edgesLoop]
  | cons m ms ih =>
    cases ds with
    | nil => simp at hl
    | cons d ds =>
      simp only [edgesLoop]
      split
      · exact ⟨rfl, rfl, hm, rfl⟩
      · have hl' : ms.length = ds.length := by simpa using hl
        have hm' : ∀ (i : Nat) (m' : Obj S T), ms[i]? = some m' → ∃ t, ds[i]? = some t ∧ m'.df = some t := by
          intro i m' h
          have := hm (i + 1) m' (by simpa using h)
          simpa using this
        obtain ⟨h1, h2, h3, h4⟩ := ih ds hl' hm'
        obtain ⟨t0, _, ht0⟩ := hm 0 m (by simp)
        obtain ⟨t', ht'⟩ := step_edges_df_some A m r t0 ht0
        refine ⟨by simp [h1], by simp [h2], ?_, ?_⟩
        · intro i m' h
          cases i with
          | zero =>
            simp only [List.getElem?_cons_zero, Option.some.injEq] at h
            subst h
            exact ⟨t', by simp [ht'], ht'⟩
          | succ n =>
            simp only [List.getElem?_cons_succ] at h ⊢
            exact h3 n m' h
        · simp [h4, step_edges_sig]

/-- a successful group fit establishes the mirror, whatever the state before. -/
theorem fit_good (A : Api S T) (gcf : Settings → List S → Except Err (List T)) (g : GObj S T) (xs : List S)
    (h : (gstep A gcf g (.fit xs)).2 = .done) : Good (gstep A gcf g (.fit xs)).1 := by
  simp only [gstep] at h ⊢
  split at h
  · simp at h
  · rename_i ts heq
    split at h
    · rename_i hlen
      simp only [hlen, if_true]
      refine ⟨⟨by simp [hlen], by simp [hlen]⟩, ?_⟩
      intro i m hm
      simp only [List.getElem?_map, Option.map_eq_some_iff] at hm
      obtain ⟨⟨x, t⟩, hz, rfl⟩ := hm
      rw [List.getElem?_zip_eq_some] at hz
      obtain ⟨hx, ht⟩ := hz
      exact ⟨⟨t, ht, rfl⟩, hx.symm⟩
    · simp at h

/-- the edge recomputation of the whole group keeps the mirror - also when one model raises and the loop stops half-way. -/
theorem edges_good (A : Api S T) (gcf : Settings → List S → Except Err (List T)) (g : GObj S T) (r : Option Rat)
    (h : Good g) : Good (gstep A gcf g (.edges r)).1 := by
  obtain ⟨⟨ha1, ha2⟩, hm⟩ := h
  have hm' : ∀ (i : Nat) (m : Obj S T), g.models[i]? = some m → ∃ t, g.dfs[i]? = some t ∧ m.df = some t :=
    fun i m h => (hm i m h).1
  obtain ⟨h1, h2, h3, h4⟩ := edgesLoop_spec A r g.models g.dfs ha1 hm'
  simp only [gstep]
  refine ⟨⟨by simp only [h1, h2, ha1], by simp only [h1, ha2]⟩, ?_⟩
  intro i m hi
  refine ⟨h3 i m hi, ?_⟩
  show m.sig = g.sigs[i]?
  have h5 : ((edgesLoop A r g.models g.dfs).1.map (·.sig))[i]? = some m.sig := by
    simp [List.getElem?_map, hi]
  rw [h4, List.getElem?_map, Option.map_eq_some_iff] at h5
  obtain ⟨m0, hm0, hs⟩ := h5
  rw [← hs]
  exact (hm i m0 hm0).2

/-- rebinding one model's thresholds keeps the mirror. -/
theorem modelRebind_good (A : Api S T) (gcf : Settings → List S → Except Err (List T)) (g : GObj S T) (i : Nat) (th : KV)
    (h : Good g) : Good (gstep A gcf g (.modelRebind i th)).1 := by
  simp only [gstep]
  split
  · exact h
  · rename_i m hmi
    obtain ⟨⟨ha1, ha2⟩, hm⟩ := h
    refine ⟨⟨by simp only [length_replaceAt, ha1], by simp only [length_replaceAt, ha2]⟩, ?_⟩
    intro j m' hj
    by_cases hji : j = i
    · subst hji
      simp only [getElem?_replaceAt_self _ _ _ _ hmi, Option.some.injEq] at hj
      subst hj
      exact hm j m hmi
    · simp only [getElem?_replaceAt_ne _ _ _ _ hji] at hj
      exact hm j m' hj

/-- refitting ONE model directly (`bg[i].fit(x)`) is the only operation that can break the mirror, and only at position `i`:
alignment and every other position are kept. -/
theorem modelFit_others (A : Api S T) (gcf : Settings → List S → Except Err (List T)) (g : GObj S T) (i : Nat) (x : S)
    (h : Good g) : aligned (gstep A gcf g (.modelFit i x)).1 ∧ ∀ j, j ≠ i → mirrorAt (gstep A gcf g (.modelFit i x)).1 j := by
  simp only [gstep]
  split
  · exact ⟨h.1, fun j _ => h.2 j⟩
  · rename_i m hmi
    obtain ⟨⟨ha1, ha2⟩, hm⟩ := h
    refine ⟨⟨by simp only [length_replaceAt, ha1], by simp only [length_replaceAt, ha2]⟩, ?_⟩
    intro j hji m' hj
    simp only [getElem?_replaceAt_ne _ _ _ _ hji] at hj
    exact hm j m' hj

/-- a history is REGULAR when it contains no direct refit of a single model and every group fit in it succeeds. -/
def regular (A : Api S T) (gcf : Settings → List S → Except Err (List T)) : GObj S T → List (GOp S T) → Prop
  | _, [] => True
  | g, op :: rest =>
    (match op with
     | .modelFit _ _ => False
     | .fit xs => (gstep A gcf g (.fit xs)).2 = .done
     | _ => True) ∧ regular A gcf (gstep A gcf g op).1 rest

/-- INVARIANT over histories: after any regular history on a group in a good state (in particular on a freshly constructed one),
`models[i]` holds exactly `df_features[i]` and `sigs[i]`, position by position. -/
theorem mirror_invariant (A : Api S T) (gcf : Settings → List S → Except Err (List T)) (g : GObj S T) (ops : List (GOp S T))
    (h : Good g) (hr : regular A gcf g ops) : Good (grun A gcf g ops) := by
  induction ops generalizing g with
  | nil => exact h
  | cons op rest ih =>
    simp only [grun, List.foldl_cons]
    obtain ⟨h1, h2⟩ := hr
    refine ih _ ?_ h2
    cases op with
    | fit xs => exact fit_good A gcf g xs h1
    | edges r => exact edges_good A gcf g r h
    | modelRebind i th => exact modelRebind_good A gcf g i th h
    | modelFit i x => exact False.elim h1

theorem fresh_good (st : Settings) : Good (freshGroup (S := S) (T := T) st) := by
  refine ⟨⟨rfl, rfl⟩, ?_⟩
  intro i m hm
  simp [freshGroup] at hm

/-- every model of a successful group fit carries the group's settings. -/
theorem fit_models_settings (A : Api S T) (gcf : Settings → List S → Except Err (List T)) (g : GObj S T) (xs : List S)
    (h : (gstep A gcf g (.fit xs)).2 = .done) : ∀ m ∈ (gstep A gcf g (.fit xs)).1.models, m.st = g.st := by
  simp only [gstep] at h ⊢
  split at h
  · simp at h
  · rename_i ts heq
    split at h
    · rename_i hlen
      simp only [hlen, if_true]
      intro m hm
      simp only [List.mem_map] at hm
      obtain ⟨⟨x, t⟩, _, rfl⟩ := hm
      rfl
    · simp at h

/-- in the group recomputation every model is recomputed with ITS OWN settings: position `i` of the result is the model's own
`recompute_edges(r)` step (when the loop reaches it). -/
theorem edges_uses_model_settings (A : Api S T) (r : Option Rat) (ms : List (Obj S T)) (ds : List T) (hl : ms.length = ds.length)
    (hdone : (edgesLoop A r ms ds).2.2 = true) :
    (edgesLoop A r ms ds).1 = ms.map fun m => (step A m (.edges r)).1 := by
  induction ms generalizing ds with
  | nil => simp [edgesLoop]
  | cons m ms ih =>
    cases ds with
    | nil => simp at hl
    | cons d ds =>
      simp only [edgesLoop] at hdone ⊢
      split at hdone
      · simp at hdone
      · have hl' : ms.length = ds.length := by simpa using hl
        simp [ih ds hl' hdone]

end Bycycle.Obj
