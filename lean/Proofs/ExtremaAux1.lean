import BycycleModel.Extrema
/-!
# Auxiliary lemmas for C02, part 1: crossings, alternation, closed half-waves, first arg-extrema
-/
namespace Bycycle

/-! ## `crossingsAux` -/

theorem mem_crossingsAux (pos : List Bool) (i0 x : Nat) :
    x ∈ crossingsAux pos i0 ↔ ∃ i, x = i0 + i ∧ pos[i]? = some true ∧ pos[i + 1]? = some false := by
  induction pos generalizing i0 with
  | nil => simp [crossingsAux]
  | cons a t ih =>
    cases t with
    | nil => simp [crossingsAux]
    | cons c rest =>
      unfold crossingsAux
      have ih' := ih (i0 + 1)
      constructor
      · intro h
        split at h
        · rename_i hc
          simp only [List.mem_cons] at h
          rcases h with h | h
          · exact ⟨0, by omega, by simp_all, by simp_all⟩
          · obtain ⟨i, h1, h2, h3⟩ := ih'.1 h
            exact ⟨i + 1, by omega, by simpa using h2, by simpa using h3⟩
        · obtain ⟨i, h1, h2, h3⟩ := ih'.1 h
          exact ⟨i + 1, by omega, by simpa using h2, by simpa using h3⟩
      · rintro ⟨i, h1, h2, h3⟩
        cases i with
        | zero =>
          simp at h2 h3
          subst h2 h3
          simp [h1]
        | succ j =>
          have : x ∈ crossingsAux (c :: rest) (i0 + 1) :=
            ih'.2 ⟨j, by omega, by simpa using h2, by simpa using h3⟩
          split
          · exact List.mem_cons_of_mem _ this
          · exact this

theorem crossingsAux_sorted (pos : List Bool) (i0 : Nat) : (crossingsAux pos i0).Pairwise (· < ·) := by
  induction pos generalizing i0 with
  | nil => simp [crossingsAux]
  | cons a t ih =>
    cases t with
    | nil => simp [crossingsAux]
    | cons c rest =>
      unfold crossingsAux
      split
      · rw [List.pairwise_cons]
        refine ⟨?_, ih _⟩
        intro y hy
        obtain ⟨i, h1, _, _⟩ := (mem_crossingsAux _ _ _).1 hy
        omega
      · exact ih _

theorem getD_false_eq_true (b : List Bool) (i : Nat) : b.getD i false = true ↔ b[i]? = some true := by
  rw [List.getD_eq_getElem?_getD]
  cases h : b[i]? with
  | none => simp
  | some v => simp

theorem mem_risingX' (b : List Bool) (i : Nat) :
    i ∈ risingX b ↔ (b[i]? = some false ∧ b[i + 1]? = some true) := by
  unfold risingX
  rw [mem_crossingsAux]
  constructor
  · rintro ⟨j, h1, h2, h3⟩
    have : j = i := by omega
    subst this
    simp only [List.getElem?_map, Option.map_eq_some_iff] at h2 h3
    obtain ⟨a, ha, ha'⟩ := h2
    obtain ⟨c, hc, hc'⟩ := h3
    simp at ha' hc'
    subst ha' hc'
    exact ⟨ha, hc⟩
  · rintro ⟨h2, h3⟩
    exact ⟨i, by omega, by simp [h2], by simp [h3]⟩

theorem mem_decayingX' (b : List Bool) (i : Nat) :
    i ∈ decayingX b ↔ (b[i]? = some true ∧ b[i + 1]? = some false) := by
  unfold decayingX
  rw [mem_crossingsAux]
  constructor
  · rintro ⟨j, h1, h2, h3⟩
    have : j = i := by omega
    subst this
    exact ⟨h2, h3⟩
  · rintro ⟨h2, h3⟩
    exact ⟨i, by omega, h2, h3⟩

theorem getElem?_some_lt {b : List Bool} {i : Nat} {v : Bool} (h : b[i]? = some v) : i < b.length := by
  refine Decidable.byContradiction fun hc => ?_
  rw [List.getElem?_eq_none (by omega)] at h
  cases h

theorem getD_false_eq_false_of_lt (b : List Bool) (i : Nat) (h : i < b.length) :
    b.getD i false = false ↔ b[i]? = some false := by
  rw [List.getD_eq_getElem?_getD]
  rw [List.getElem?_eq_getElem h]
  simp

theorem mem_risingX_aux (b : List Bool) (i : Nat) :
    i ∈ risingX b ↔ (i + 1 < b.length ∧ b.getD i false = false ∧ b.getD (i + 1) false = true) := by
  rw [mem_risingX', getD_false_eq_true]
  constructor
  · rintro ⟨h1, h2⟩
    have := getElem?_some_lt h2
    exact ⟨this, (getD_false_eq_false_of_lt b i (by omega)).2 h1, h2⟩
  · rintro ⟨h0, h1, h2⟩
    exact ⟨(getD_false_eq_false_of_lt b i (by omega)).1 h1, h2⟩

theorem mem_decayingX_aux (b : List Bool) (i : Nat) :
    i ∈ decayingX b ↔ (i + 1 < b.length ∧ b.getD i false = true ∧ b.getD (i + 1) false = false) := by
  rw [mem_decayingX', getD_false_eq_true]
  constructor
  · rintro ⟨h1, h2⟩
    have := getElem?_some_lt h2
    exact ⟨this, h1, (getD_false_eq_false_of_lt b _ this).2 h2⟩
  · rintro ⟨h0, h1, h2⟩
    exact ⟨h1, (getD_false_eq_false_of_lt b _ h0).1 h2⟩

/-! ## discrete intermediate value -/

theorem exists_fall (f : Nat → Bool) (i j : Nat) (h : i < j) (hi : f i = true) (hj : f j = false) :
    ∃ d, i ≤ d ∧ d < j ∧ f d = true ∧ f (d + 1) = false := by
  induction j with
  | zero => omega
  | succ j ih =>
    cases hfj : f j with
    | true => exact ⟨j, by omega, by omega, hfj, hj⟩
    | false =>
      have hij : i ≠ j := by
        intro e; subst e; rw [hi] at hfj; cases hfj
      obtain ⟨d, h1, h2, h3, h4⟩ := ih (by omega) hfj
      exact ⟨d, h1, by omega, h3, h4⟩

theorem exists_rise (f : Nat → Bool) (i j : Nat) (h : i < j) (hi : f i = false) (hj : f j = true) :
    ∃ d, i ≤ d ∧ d < j ∧ f d = false ∧ f (d + 1) = true := by
  obtain ⟨d, h1, h2, h3, h4⟩ := exists_fall (fun k => !f k) i j h (by simp [hi]) (by simp [hj])
  exact ⟨d, h1, h2, by simpa using h3, by simpa using h4⟩

theorem alt_rd_aux (b : List Bool) (r r' : Nat) (hr : r ∈ risingX b) (hr' : r' ∈ risingX b)
    (h : r < r') : ∃ d ∈ decayingX b, r < d ∧ d < r' := by
  rw [mem_risingX_aux] at hr hr'
  obtain ⟨d, h1, h2, h3, h4⟩ := exists_fall (fun k => b.getD k false) (r + 1) r' (by
    rcases Nat.lt_or_ge (r + 1) r' with h' | h'
    · exact h'
    · have : r + 1 = r' := by omega
      subst this
      rw [hr.2.2] at hr'
      cases hr'.2.1) hr.2.2 hr'.2.1
  exact ⟨d, (mem_decayingX_aux b d).2 ⟨by omega, h3, h4⟩, by omega, h2⟩

theorem alt_dr_aux (b : List Bool) (d d' : Nat) (hd : d ∈ decayingX b) (hd' : d' ∈ decayingX b)
    (h : d < d') : ∃ r ∈ risingX b, d < r ∧ r < d' := by
  rw [mem_decayingX_aux] at hd hd'
  obtain ⟨r, h1, h2, h3, h4⟩ := exists_rise (fun k => b.getD k false) (d + 1) d' (by
    rcases Nat.lt_or_ge (d + 1) d' with h' | h'
    · exact h'
    · have : d + 1 = d' := by omega
      subst this
      rw [hd.2.2] at hd'
      cases hd'.2.1) hd.2.2 hd'.2.1
  exact ⟨r, (mem_risingX_aux b r).2 ⟨by omega, h3, h4⟩, by omega, h2⟩

/-! ## `find?` on a sorted list -/

theorem find?_gt_sorted (l : List Nat) (hl : l.Pairwise (· < ·)) (r d : Nat) :
    l.find? (fun d => decide (r < d)) = some d ↔ (d ∈ l ∧ r < d ∧ ∀ d' ∈ l, r < d' → d ≤ d') := by
  induction l with
  | nil => simp
  | cons a t ih =>
    rw [List.pairwise_cons] at hl
    rw [List.find?_cons]
    by_cases ha : r < a
    · simp only [ha, decide_true]
      constructor
      · intro h
        cases h
        refine ⟨by simp, ha, ?_⟩
        intro d' hd' _
        rcases List.mem_cons.1 hd' with e | e
        · omega
        · have := hl.1 d' e; omega
      · rintro ⟨h1, h2, h3⟩
        have := h3 a (by simp) ha
        rcases List.mem_cons.1 h1 with e | e
        · rw [e]
        · have := hl.1 d e; omega
    · simp only [ha, decide_false]
      rw [ih hl.2]
      constructor
      · rintro ⟨h1, h2, h3⟩
        refine ⟨List.mem_cons_of_mem _ h1, h2, ?_⟩
        intro d' hd' hrd
        rcases List.mem_cons.1 hd' with e | e
        · omega
        · exact h3 d' e hrd
      · rintro ⟨h1, h2, h3⟩
        rcases List.mem_cons.1 h1 with e | e
        · omega
        · exact ⟨e, h2, fun d' hd' => h3 d' (List.mem_cons_of_mem _ hd')⟩

/-! ## closed half-waves -/

theorem risingX_sorted_aux (b : List Bool) : (risingX b).Pairwise (· < ·) := crossingsAux_sorted _ _
theorem decayingX_sorted_aux (b : List Bool) : (decayingX b).Pairwise (· < ·) := crossingsAux_sorted _ _

theorem mem_closedPos_iff_find (b : List Bool) (r d : Nat) :
    (r, d) ∈ closedPos b ↔ r ∈ risingX b ∧ (decayingX b).find? (fun d => decide (r < d)) = some d := by
  unfold closedPos
  simp only [List.mem_filterMap, Option.map_eq_some_iff, Prod.mk.injEq]
  constructor
  · rintro ⟨a, ha, c, hc, rfl, rfl⟩
    exact ⟨ha, hc⟩
  · rintro ⟨h1, h2⟩
    exact ⟨r, h1, d, h2, rfl, rfl⟩

theorem mem_closedNeg_iff_find (b : List Bool) (d r : Nat) :
    (d, r) ∈ closedNeg b ↔ d ∈ decayingX b ∧ (risingX b).find? (fun r => decide (d < r)) = some r := by
  unfold closedNeg
  simp only [List.mem_filterMap, Option.map_eq_some_iff, Prod.mk.injEq]
  constructor
  · rintro ⟨a, ha, c, hc, rfl, rfl⟩
    exact ⟨ha, hc⟩
  · rintro ⟨h1, h2⟩
    exact ⟨d, h1, r, h2, rfl, rfl⟩

theorem mem_closedPos_aux (b : List Bool) (r d : Nat) :
    (r, d) ∈ closedPos b ↔
      (r < d ∧ d + 1 < b.length ∧ b.getD r false = false ∧
       (∀ j, r < j → j ≤ d → b.getD j false = true) ∧ b.getD (d + 1) false = false) := by
  rw [mem_closedPos_iff_find, find?_gt_sorted _ (decayingX_sorted_aux b)]
  constructor
  · rintro ⟨hr, hd, hrd, hmin⟩
    have hr' := (mem_risingX_aux b r).1 hr
    have hd' := (mem_decayingX_aux b d).1 hd
    refine ⟨hrd, hd'.1, hr'.2.1, ?_, hd'.2.2⟩
    intro j hj1 hj2
    cases hbj : b.getD j false with
    | true => rfl
    | false =>
      exfalso
      have hne : r + 1 ≠ j := by
        intro e; subst e; rw [hr'.2.2] at hbj; cases hbj
      obtain ⟨d', h1, h2, h3, h4⟩ := exists_fall (fun k => b.getD k false) (r + 1) j (by omega) hr'.2.2 hbj
      have hd'' : d' ∈ decayingX b := (mem_decayingX_aux b d').2 ⟨by omega, h3, h4⟩
      have := hmin d' hd'' (by omega)
      omega
  · rintro ⟨hrd, hlen, h0, hall, h1⟩
    refine ⟨(mem_risingX_aux b r).2 ⟨by omega, h0, hall (r + 1) (by omega) (by omega)⟩,
      (mem_decayingX_aux b d).2 ⟨hlen, hall d hrd (Nat.le_refl _), h1⟩, hrd, ?_⟩
    intro d' hd' hrd'
    refine Decidable.byContradiction fun hc => ?_
    have hd'' := (mem_decayingX_aux b d').1 hd'
    have := hall (d' + 1) (by omega) (by omega)
    rw [hd''.2.2] at this
    cases this

theorem mem_closedNeg_aux (b : List Bool) (d r : Nat) :
    (d, r) ∈ closedNeg b ↔
      (d < r ∧ r + 1 < b.length ∧ b.getD d false = true ∧
       (∀ j, d < j → j ≤ r → b.getD j false = false) ∧ b.getD (r + 1) false = true) := by
  rw [mem_closedNeg_iff_find, find?_gt_sorted _ (risingX_sorted_aux b)]
  constructor
  · rintro ⟨hd, hr, hdr, hmin⟩
    have hr' := (mem_risingX_aux b r).1 hr
    have hd' := (mem_decayingX_aux b d).1 hd
    refine ⟨hdr, hr'.1, hd'.2.1, ?_, hr'.2.2⟩
    intro j hj1 hj2
    cases hbj : b.getD j false with
    | false => rfl
    | true =>
      exfalso
      have hne : d + 1 ≠ j := by
        intro e; subst e; rw [hd'.2.2] at hbj; cases hbj
      obtain ⟨r', h1, h2, h3, h4⟩ := exists_rise (fun k => b.getD k false) (d + 1) j (by omega) hd'.2.2 hbj
      have hr'' : r' ∈ risingX b := (mem_risingX_aux b r').2 ⟨by omega, h3, h4⟩
      have := hmin r' hr'' (by omega)
      omega
  · rintro ⟨hdr, hlen, h0, hall, h1⟩
    refine ⟨(mem_decayingX_aux b d).2 ⟨by omega, h0, hall (d + 1) (by omega) (by omega)⟩,
      (mem_risingX_aux b r).2 ⟨hlen, hall r hdr (Nat.le_refl _), h1⟩, hdr, ?_⟩
    intro r' hr' hdr'
    refine Decidable.byContradiction fun hc => ?_
    have hr'' := (mem_risingX_aux b r').1 hr'
    have := hall (r' + 1) (by omega) (by omega)
    rw [hr''.2.2] at this
    cases this

/-! ## first arg-extrema -/

theorem argmaxFirst_go_spec (l : List Rat) (best : Rat) (bi i : Nat) :
    (argmaxFirst.go best bi i l = bi ∧ ∀ j, j < l.length → l.getD j 0 ≤ best) ∨
    (∃ k, k < l.length ∧ argmaxFirst.go best bi i l = i + k ∧ best < l.getD k 0 ∧
      (∀ j, j < k → l.getD j 0 < l.getD k 0) ∧ ∀ j, j < l.length → l.getD j 0 ≤ l.getD k 0) := by
  induction l generalizing best bi i with
  | nil => left; simp [argmaxFirst.go]
  | cons y ys ih =>
    unfold argmaxFirst.go
    split
    · rename_i hby
      rcases ih y i (i+1) with ⟨h1, h2⟩ | ⟨k, hk, h1, h3, h4, h5⟩
      · right
        refine ⟨0, by simp, by simpa using h1, by simpa using hby, by omega, ?_⟩
        intro j hj
        cases j with
        | zero => simp
        | succ j => simp at hj ⊢; exact h2 j hj
      · right
        refine ⟨k + 1, by simpa using hk, by omega, ?_, ?_, ?_⟩
        · simp; grind
        · intro j hj
          cases j with
          | zero => simpa using h3
          | succ j => simp; exact h4 j (by omega)
        · intro j hj
          cases j with
          | zero => simp; grind
          | succ j => simp at hj ⊢; exact h5 j hj
    · rename_i hby
      rcases ih best bi (i+1) with ⟨h1, h2⟩ | ⟨k, hk, h1, h3, h4, h5⟩
      · left
        refine ⟨h1, ?_⟩
        intro j hj
        cases j with
        | zero => simp; grind
        | succ j => simp at hj ⊢; exact h2 j hj
      · right
        refine ⟨k + 1, by simpa using hk, by omega, by simpa using h3, ?_, ?_⟩
        · intro j hj
          cases j with
          | zero => simp; grind
          | succ j => simp; exact h4 j (by omega)
        · intro j hj
          cases j with
          | zero => simp; grind
          | succ j => simp at hj ⊢; exact h5 j hj

theorem argmaxFirst_spec_aux (l : List Rat) (i : Nat) (h : argmaxFirst l = some i) :
    i < l.length ∧ (∀ j, j < l.length → l.getD j 0 ≤ l.getD i 0) ∧ (∀ j, j < i → l.getD j 0 < l.getD i 0) := by
  cases l with
  | nil => simp [argmaxFirst] at h
  | cons x xs =>
    simp only [argmaxFirst, Option.some.injEq] at h
    rcases argmaxFirst_go_spec xs x 0 1 with ⟨h1, h2⟩ | ⟨k, hk, h1, h3, h4, h5⟩
    · have : i = 0 := by omega
      subst this
      refine ⟨by simp, ?_, by omega⟩
      intro j hj
      cases j with
      | zero => simp
      | succ j => simp at hj ⊢; exact h2 j hj
    · have : i = k + 1 := by omega
      subst this
      refine ⟨by simpa using hk, ?_, ?_⟩
      · intro j hj
        cases j with
        | zero => simp; grind
        | succ j => simp at hj ⊢; exact h5 j hj
      · intro j hj
        cases j with
        | zero => simpa using h3
        | succ j => simp; exact h4 j (by omega)

theorem argmaxFirst_isSome_aux (l : List Rat) (h : l ≠ []) : (argmaxFirst l).isSome = true := by
  cases l with
  | nil => exact absurd rfl h
  | cons x xs => simp [argmaxFirst]

theorem argminFirst_go_spec (l : List Rat) (best : Rat) (bi i : Nat) :
    (argminFirst.go best bi i l = bi ∧ ∀ j, j < l.length → best ≤ l.getD j 0) ∨
    (∃ k, k < l.length ∧ argminFirst.go best bi i l = i + k ∧ l.getD k 0 < best ∧
      (∀ j, j < k → l.getD k 0 < l.getD j 0) ∧ ∀ j, j < l.length → l.getD k 0 ≤ l.getD j 0) := by
  induction l generalizing best bi i with
  | nil => left; simp [argminFirst.go]
  | cons y ys ih =>
    unfold argminFirst.go
    split
    · rename_i hby
      rcases ih y i (i+1) with ⟨h1, h2⟩ | ⟨k, hk, h1, h3, h4, h5⟩
      · right
        refine ⟨0, by simp, by simpa using h1, by simpa using hby, by omega, ?_⟩
        intro j hj
        cases j with
        | zero => simp
        | succ j => simp at hj ⊢; exact h2 j hj
      · right
        refine ⟨k + 1, by simpa using hk, by omega, ?_, ?_, ?_⟩
        · simp; grind
        · intro j hj
          cases j with
          | zero => simpa using h3
          | succ j => simp; exact h4 j (by omega)
        · intro j hj
          cases j with
          | zero => simp; grind
          | succ j => simp at hj ⊢; exact h5 j hj
    · rename_i hby
      rcases ih best bi (i+1) with ⟨h1, h2⟩ | ⟨k, hk, h1, h3, h4, h5⟩
      · left
        refine ⟨h1, ?_⟩
        intro j hj
        cases j with
        | zero => simp; grind
        | succ j => simp at hj ⊢; exact h2 j hj
      · right
        refine ⟨k + 1, by simpa using hk, by omega, by simpa using h3, ?_, ?_⟩
        · intro j hj
          cases j with
          | zero => simp; grind
          | succ j => simp; exact h4 j (by omega)
        · intro j hj
          cases j with
          | zero => simp; grind
          | succ j => simp at hj ⊢; exact h5 j hj

theorem argminFirst_spec_aux (l : List Rat) (i : Nat) (h : argminFirst l = some i) :
    i < l.length ∧ (∀ j, j < l.length → l.getD i 0 ≤ l.getD j 0) ∧ (∀ j, j < i → l.getD i 0 < l.getD j 0) := by
  cases l with
  | nil => simp [argminFirst] at h
  | cons x xs =>
    simp only [argminFirst, Option.some.injEq] at h
    rcases argminFirst_go_spec xs x 0 1 with ⟨h1, h2⟩ | ⟨k, hk, h1, h3, h4, h5⟩
    · have : i = 0 := by omega
      subst this
      refine ⟨by simp, ?_, by omega⟩
      intro j hj
      cases j with
      | zero => simp
      | succ j => simp at hj ⊢; exact h2 j hj
    · have : i = k + 1 := by omega
      subst this
      refine ⟨by simpa using hk, ?_, ?_⟩
      · intro j hj
        cases j with
        | zero => simp; grind
        | succ j => simp at hj ⊢; exact h5 j hj
      · intro j hj
        cases j with
        | zero => simpa using h3
        | succ j => simp; exact h4 j (by omega)

theorem argminFirst_isSome_aux (l : List Rat) (h : l ≠ []) : (argminFirst l).isSome = true := by
  cases l with
  | nil => exact absurd rfl h
  | cons x xs => simp [argminFirst]

end Bycycle
