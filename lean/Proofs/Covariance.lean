import BycycleModel.Covariance
import Proofs.BurstFeatures
import Proofs.CovarianceAux
/-!
# Helper lemmas for C09 (mirror) and C10 (unit covariance)

The proofs (and their auxiliary lemmas) are in `Proofs/CovarianceAux.lean`, namespace `Bycycle.CovAux`.
-/
namespace Bycycle

/-! ### C10: multiplication by a positive constant -/

theorem argmaxFirst_scale (a : Rat) (ha : 0 < a) (l : List Rat) : argmaxFirst (scaleSig a l) = argmaxFirst l := by
  exact CovAux.argmaxFirst_scale a ha l

theorem argminFirst_scale (a : Rat) (ha : 0 < a) (l : List Rat) : argminFirst (scaleSig a l) = argminFirst l := by
  exact CovAux.argminFirst_scale a ha l

theorem flankMid_scale (a : Rat) (ha : 0 < a) (seg : List Rat) (f : Flank) : flankMid (scaleSig a seg) f = flankMid seg f := by
  exact CovAux.flankMid_scale a ha seg f

theorem findZerox_scale (a : Rat) (ha : 0 < a) (sig : List Rat) (pk tr : List Nat) :
    findZerox (scaleSig a sig) pk tr = findZerox sig pk tr := by
  exact CovAux.findZerox_scale a ha sig pk tr

/-- with the same sign pattern of the filtered signal (the filter is linear, E5) the cyclepoints are unchanged. -/
theorem computeCyclepoints_scale (a : Rat) (ha : 0 < a) (sig : List Rat) (pad : Nat) (b : List Bool) (bd : Int) :
    computeCyclepoints (scaleSig a sig) pad b bd = computeCyclepoints sig pad b bd := by
  exact CovAux.computeCyclepoints_scale a ha sig pad b bd

/-- voltage features and band_amp scale with `a` (amp is homogeneous, E5), durations and symmetries do not change. -/
theorem shapePeak_scale (a : Rat) (ha : 0 < a) (x amp : List Rat) (rows : List SampleRow) :
    shapePeak (scaleSig a x) (scaleSig a amp) rows = (shapePeak x amp rows).map fun l => l.map (ShapeRow.scaleVolts a) := by
  exact CovAux.shapePeak_scale a ha x amp rows

theorem ratioMinMax_scale (a : Rat) (ha : 0 < a) (x y : Rat) : ratioMinMax (a * x) (a * y) = ratioMinMax x y := by
  exact CovAux.ratioMinMax_scale a ha x y

theorem ampConsistency_scale (a : Rat) (ha : 0 < a) (pc : Bool) (dir : Direction) (rises decays : List Rat) :
    ampConsistency pc dir (scaleSig a rises) (scaleSig a decays) = ampConsistency pc dir rises decays := by
  exact CovAux.ampConsistency_scale a ha pc dir rises decays

theorem monotonicity_scale (a : Rat) (ha : 0 < a) (pc : Bool) (sig : List Rat) (rows : List (Int × Int × Int)) :
    monotonicity pc (scaleSig a sig) rows = monotonicity pc sig rows := by
  exact CovAux.monotonicity_scale a ha pc sig rows

theorem ampFraction_scale (a : Rat) (ha : 0 < a) (va : List Rat) : ampFraction (scaleSig a va) = ampFraction va := by
  exact CovAux.ampFraction_scale a ha va

/-! ### C09: negation / centring swap -/

theorem negSig_negSig (x : List Rat) : negSig (negSig x) = x := by
  exact CovAux.negSig_negSig x

/-- trough-centred amplitude consistency on (rises, decays) is the peak-centred one with the two columns swapped. -/
theorem ampConsistency_mirror (dir : Direction) (rises decays : List Rat) (hlen : rises.length = decays.length) :
    ampConsistency false dir rises decays = ampConsistency true dir decays rises := by
  exact CovAux.ampConsistency_mirror dir rises decays hlen

/-- trough-centred monotonicity on `x` is the peak-centred one on `-x` with the same sample triples. -/
theorem monotonicity_mirror (x : List Rat) (rows : List (Int × Int × Int)) :
    monotonicity false x rows = monotonicity true (negSig x) rows := by
  exact CovAux.monotonicity_mirror x rows

/-- the generated renaming + flips is an involution on rows with finite symmetries. -/
theorem mirror_involution (s : ShapeRow) (q1 q2 : Rat) (h1 : s.timeRdsym = .fin q1) (h2 : s.timePtsym = .fin q2) :
    Slots.flipShape (Slots.renameShape (Slots.flipShape (Slots.renameShape s))) = s := by
  exact CovAux.mirror_involution s q1 q2 h1 h2

/-- the trough-centred shape table is by construction the mirrored peak-centred table of the negated signal. -/
theorem shape_mirror (x amp : List Rat) (rows : List SampleRow) :
    shapeFeatures .trough (negSig x) amp rows =
      (shapeFeatures .peak (negSig x) amp rows).map fun l => l.map fun s => Slots.flipShape (Slots.renameShape s) := by
  exact CovAux.shape_mirror x amp rows

end Bycycle
