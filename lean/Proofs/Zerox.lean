import BycycleModel.Zerox
/-!
# Helper lemmas for C03 (flank midpoints)
-/
namespace Bycycle

theorem crossingsAux_eq (pos : List Bool) (i0 : Nat) :
    crossingsAux pos i0 =
      ((List.range (pos.length - 1)).filter (fun i => pos.getD i false && !pos.getD (i+1) false)).map (· + i0) := by
  induction pos generalizing i0 with
  | nil => simp [crossingsAux]
  | cons a l ih =>
    cases l with
    | nil => simp [crossingsAux]
    | cons b rest =>
      rw [crossingsAux, ih (i0 + 1)]
      simp only [List.length_cons, Nat.add_sub_cancel]
      rw [List.range_succ_eq_map (n := rest.length), List.filter_cons, List.filter_map]
      have h1 : ∀ (l : List Nat), List.map (fun x => x + (i0 + 1)) l = List.map (fun x => x + i0) (List.map Nat.succ l) := by
        intro l; rw [List.map_map]; apply List.map_congr_left; intro x _; simp; omega
      have h2 : ((fun i => (a :: b :: rest).getD i false && !(a :: b :: rest).getD (i + 1) false) ∘ Nat.succ)
          = (fun i => (b :: rest).getD i false && !(b :: rest).getD (i + 1) false) := by
        funext i; simp
      rw [h2, h1]
      simp only [List.getD_cons_zero, List.getD_cons_succ, Nat.zero_add]
      split <;> simp

theorem getD_map_flankPos (seg : List Rat) (g : Rat → Bool) (i : Nat) (hi : i < seg.length) :
    (seg.map g).getD i false = g (seg.getD i 0) := by
  simp [List.getD_eq_getElem?_getD, List.getElem?_map, List.getElem?_eq_getElem hi]

theorem crossings_eq_spec (seg : List Rat) (f : Flank) (h : Rat) :
    crossingsAux (seg.map (flankPos f h)) 0 = crossingsSpec seg f h := by
  rw [crossingsAux_eq]
  simp only [Nat.add_zero, List.map_id', List.length_map, crossingsSpec]
  apply List.filter_congr
  intro i hi
  have hi' : i + 1 < seg.length := by have := List.mem_range.mp hi; omega
  rw [getD_map_flankPos _ _ _ (by omega), getD_map_flankPos _ _ _ hi']
  cases f <;> simp [flankPos, Slots.risePosCmp, Slots.decayPosCmp, Cmp.evalRat, ← decide_not, Rat.not_le, Rat.not_lt]

theorem mem_crossingsSpec_rise (seg : List Rat) (h : Rat) (i : Nat) :
    i ∈ crossingsSpec seg .rise h ↔ (i + 1 < seg.length ∧ seg.getD i 0 ≤ h ∧ h < seg.getD (i + 1) 0) := by
  simp only [crossingsSpec, List.mem_filter, List.mem_range, Bool.and_eq_true, decide_eq_true_eq]
  constructor
  · rintro ⟨h1, h2⟩; exact ⟨by omega, h2⟩
  · rintro ⟨h1, h2⟩; exact ⟨by omega, h2⟩

theorem mem_crossingsSpec_decay (seg : List Rat) (h : Rat) (i : Nat) :
    i ∈ crossingsSpec seg .decay h ↔ (i + 1 < seg.length ∧ h < seg.getD i 0 ∧ seg.getD (i + 1) 0 ≤ h) := by
  simp only [crossingsSpec, List.mem_filter, List.mem_range, Bool.and_eq_true, decide_eq_true_eq]
  constructor
  · rintro ⟨h1, h2⟩; exact ⟨by omega, h2⟩
  · rintro ⟨h1, h2⟩; exact ⟨by omega, h2⟩

theorem medianFloor_singleton (n : Nat) : medianFloor [n] = n := by
  simp [medianFloor]; omega

set_option linter.unusedVariables false in
theorem flankMid_eq_spec (seg : List Rat) (f : Flank) (hne : seg ≠ []) : flankMid seg f = flankMidSpec seg f := by
  unfold flankMid flankMidSpec findFlankZerox
  simp only [crossings_eq_spec]
  generalize hc : crossingsSpec seg f ((seg.headD 0 + seg.getLastD 0) / 2) = xs
  by_cases h1 : seg.all (· == 0) = true
  · simp [h1]
  · have h1' : seg.all (· == 0) = false := by simpa using h1
    simp only [h1', Bool.false_or, Bool.false_eq_true, if_false]
    have h3 : medianFloor (if xs.isEmpty = true then [seg.length / 2] else xs)
        = if xs.isEmpty = true then seg.length / 2 else medianFloor xs := by
      split <;> simp [medianFloor_singleton]
    rw [h3]
    cases f <;> simp only [Slots.riseInvertedCmp, Slots.decayInvertedCmp, Cmp.evalRat] <;> rfl

theorem flankMidSpec_single (seg : List Rat) (f : Flank) (i : Nat)
    (hz : seg.all (· == 0) = false)
    (hinv : (match f with | .rise => decide (seg.getLastD 0 < seg.headD 0) | .decay => decide (seg.headD 0 < seg.getLastD 0)) = false)
    (hx : crossingsSpec seg f ((seg.headD 0 + seg.getLastD 0) / 2) = [i]) : flankMidSpec seg f = i := by
  unfold flankMidSpec
  cases f <;> simp only [hz, hinv, hx, medianFloor_singleton] <;> simp

theorem flankMidSpec_median (seg : List Rat) (f : Flank) (xs : List Nat)
    (hz : seg.all (· == 0) = false)
    (hinv : (match f with | .rise => decide (seg.getLastD 0 < seg.headD 0) | .decay => decide (seg.headD 0 < seg.getLastD 0)) = false)
    (hx : crossingsSpec seg f ((seg.headD 0 + seg.getLastD 0) / 2) = xs) (hne : xs ≠ []) :
    flankMidSpec seg f = (xs.getD ((xs.length - 1) / 2) 0 + xs.getD (xs.length / 2) 0) / 2 := by
  unfold flankMidSpec
  have : xs.isEmpty = false := by cases xs <;> simp_all
  cases f <;> simp only [hz, hinv, hx] <;> simp [this, medianFloor]

theorem flankMidSpec_centre (seg : List Rat) (f : Flank)
    (h : seg.all (· == 0) = true ∨
         (match f with | .rise => seg.getLastD 0 < seg.headD 0 | .decay => seg.headD 0 < seg.getLastD 0)) :
    flankMidSpec seg f = seg.length / 2 := by
  unfold flankMidSpec
  rcases h with h | h
  · simp only [h]; simp
  · cases f <;> simp only [h] <;> simp

theorem exists_cross_rise (seg : List Rat) (h : Rat) (h1 : seg.headD 0 ≤ h) (h2 : h < seg.getLastD 0) :
    ∃ i, i + 1 < seg.length ∧ seg.getD i 0 ≤ h ∧ h < seg.getD (i + 1) 0 := by
  induction seg with
  | nil => simp at h1 h2; grind
  | cons a l ih =>
    cases l with
    | nil => simp at h1 h2; grind
    | cons b rest =>
      by_cases hb : h < b
      · exact ⟨0, by simp, by simpa using h1, by simpa using hb⟩
      · have hb' : b ≤ h := Rat.not_lt.mp hb
        obtain ⟨i, hi1, hi2, hi3⟩ := ih (by simpa using hb') (by simpa using h2)
        exact ⟨i + 1, by simpa using hi1, by simpa using hi2, by simpa using hi3⟩

theorem exists_cross_decay (seg : List Rat) (h : Rat) (h1 : h < seg.headD 0) (h2 : seg.getLastD 0 ≤ h) :
    ∃ i, i + 1 < seg.length ∧ h < seg.getD i 0 ∧ seg.getD (i + 1) 0 ≤ h := by
  induction seg with
  | nil => simp at h1 h2; grind
  | cons a l ih =>
    cases l with
    | nil => simp at h1 h2; grind
    | cons b rest =>
      by_cases hb : b ≤ h
      · exact ⟨0, by simp, by simpa using h1, by simpa using hb⟩
      · have hb' : h < b := Rat.not_le.mp hb
        obtain ⟨i, hi1, hi2, hi3⟩ := ih (by simpa using hb') (by simpa using h2)
        exact ⟨i + 1, by simpa using hi1, by simpa using hi2, by simpa using hi3⟩

theorem crossing_exists_rise (seg : List Rat) (h : seg.headD 0 < seg.getLastD 0) :
    crossingsSpec seg .rise ((seg.headD 0 + seg.getLastD 0) / 2) ≠ [] := by
  obtain ⟨i, hi⟩ := exists_cross_rise seg ((seg.headD 0 + seg.getLastD 0) / 2) (by grind) (by grind)
  exact List.ne_nil_of_mem ((mem_crossingsSpec_rise _ _ _).mpr hi)

theorem crossing_exists_decay (seg : List Rat) (h : seg.getLastD 0 < seg.headD 0) :
    crossingsSpec seg .decay ((seg.headD 0 + seg.getLastD 0) / 2) ≠ [] := by
  obtain ⟨i, hi⟩ := exists_cross_decay seg ((seg.headD 0 + seg.getLastD 0) / 2) (by grind) (by grind)
  exact List.ne_nil_of_mem ((mem_crossingsSpec_decay _ _ _).mpr hi)

theorem getD_lt_of_forall (xs : List Nat) (n k : Nat) (hn : 0 < n) (h : ∀ x ∈ xs, x < n) : xs.getD k 0 < n := by
  rw [List.getD_eq_getElem?_getD]
  cases hk : xs[k]? with
  | none => simpa using hn
  | some v => exact h v (List.mem_of_getElem? hk)

theorem medianFloor_lt (xs : List Nat) (n : Nat) (hn : 0 < n) (h : ∀ x ∈ xs, x < n) : medianFloor xs < n := by
  unfold medianFloor
  have h1 := getD_lt_of_forall xs n ((xs.length - 1) / 2) hn h
  have h2 := getD_lt_of_forall xs n (xs.length / 2) hn h
  simp only
  omega

theorem flankMidSpec_lt (seg : List Rat) (f : Flank) (hne : seg ≠ []) : flankMidSpec seg f < seg.length := by
  have hpos : 0 < seg.length := List.length_pos_iff.mpr hne
  have hhalf : seg.length / 2 < seg.length := by omega
  unfold flankMidSpec
  simp only
  repeat' split
  all_goals first
    | exact hhalf
    | (apply medianFloor_lt _ _ hpos
       intro x hx
       simp only [crossingsSpec, List.mem_filter, List.mem_range] at hx
       omega)

theorem flankMidsSpec_length (sig : List Rat) (seq : List Ext1) : (flankMidsSpec sig seq).length = seq.length - 1 := by
  fun_induction flankMidsSpec sig seq with
  | case1 a b rest ih => simp [ih]
  | case2 seq h =>
    match seq, h with
    | [], _ => rfl
    | [_], _ => rfl
    | a :: b :: rest, h => exact absurd rfl (h a b rest)

theorem validSeq_head_lt (n : Nat) (a : Ext1) (rest : List Ext1) (hv : validSeq n (a :: rest) = true) : a.idx < n := by
  induction rest generalizing a with
  | nil => simpa [validSeq] using hv
  | cons b rest ih =>
    simp only [validSeq, Bool.and_eq_true, decide_eq_true_eq] at hv
    have := ih b hv.2
    omega

theorem slice_length (sig : List Rat) (a b : Nat) : (slice sig a b).length = min b sig.length - a := by
  simp [slice]

theorem flankMidSpec_slice_le (sig : List Rat) (a b : Nat) (f : Flank) (hab : a < b) (hb : b < sig.length) :
    a + flankMidSpec (slice sig a (b + 1)) f ≤ b := by
  have hl : (slice sig a (b + 1)).length = b + 1 - a := by rw [slice_length]; omega
  have hne : slice sig a (b + 1) ≠ [] := by
    intro h; rw [h] at hl; simp at hl; omega
  have := flankMidSpec_lt _ f hne
  omega

theorem flankMidsSpec_within (sig : List Rat) (seq : List Ext1) (hv : validSeq sig.length seq = true)
    (j : Nat) (hj : j + 1 < seq.length) :
    ∃ a b m, seq[j]? = some a ∧ seq[j + 1]? = some b ∧ (flankMidsSpec sig seq)[j]? = some m ∧
      m.1 = !a.isPeak ∧ a.idx ≤ m.2 ∧ m.2 ≤ b.idx := by
  induction seq generalizing j with
  | nil => simp at hj
  | cons a l ih =>
    cases l with
    | nil => simp at hj
    | cons b rest =>
      simp only [validSeq, Bool.and_eq_true, decide_eq_true_eq] at hv
      cases j with
      | zero =>
        refine ⟨a, b, _, rfl, rfl, by simp [flankMidsSpec]; rfl, rfl, Nat.le_add_right _ _, ?_⟩
        exact flankMidSpec_slice_le sig a.idx b.idx _ hv.1.1 (validSeq_head_lt _ b rest hv.2)
      | succ j =>
        obtain ⟨a', b', m, h1, h2, h3, h4⟩ := ih hv.2 j (by simpa using hj)
        exact ⟨a', b', m, by simpa using h1, by simpa using h2, by simpa [flankMidsSpec] using h3, h4⟩

def flankOne (sig : List Rat) (f : Flank) (s e : Nat) : Except Err Nat :=
  if (slice sig s (e + 1)).isEmpty then .error .indexError else .ok (s + flankMid (slice sig s (e + 1)) f)

theorem ffm_zero (sig : List Rat) (f : Flank) (starts ends : List Nat) (bias : Nat) :
    findFlankMidpoints sig f 0 starts ends bias = .ok [] := by
  simp [findFlankMidpoints]; rfl

theorem ffm_bias_one (sig : List Rat) (f : Flank) (n : Nat) (starts es : List Nat) (e : Nat) :
    findFlankMidpoints sig f n starts (e :: es) 1 = findFlankMidpoints sig f n starts es 0 := by
  simp [findFlankMidpoints, idx?]

theorem ffm_succ (sig : List Rat) (f : Flank) (n : Nat) (ss es : List Nat) (s e : Nat) :
    findFlankMidpoints sig f (n + 1) (s :: ss) (e :: es) 0 =
      (flankOne sig f s e >>= fun m => findFlankMidpoints sig f n ss es 0 >>= fun rest => pure (m :: rest)) := by
  simp only [findFlankMidpoints, List.range_succ_eq_map, List.mapM_cons, List.mapM_map]
  simp [idx?, flankOne, Slots.flankWindowPlus]
  simp only [Function.comp_def, Nat.succ_eq_add_one, List.getElem?_cons_succ]
  rfl

theorem interleave_true_cons (p : Nat) (ps ts : List Nat) :
    interleave true (p :: ps) ts = ⟨true, p⟩ :: interleave false ps ts := by
  rw [interleave]

theorem interleave_false_cons (t : Nat) (ps ts : List Nat) :
    interleave false ps (t :: ts) = ⟨false, t⟩ :: interleave true ps ts := by
  rw [interleave]

theorem interleave_false_nil (ps : List Nat) : interleave false ps [] = [] := by
  rw [interleave] <;> simp

theorem interleave_true_nil (ts : List Nat) : interleave true [] ts = [] := by
  rw [interleave] <;> simp

theorem flankOne_eq (sig : List Rat) (f : Flank) (s e : Nat) (hse : s < e) (he : e < sig.length) :
    flankOne sig f s e = .ok (s + flankMidSpec (slice sig s (e + 1)) f) := by
  have hl : (slice sig s (e + 1)).length = e + 1 - s := by rw [slice_length]; omega
  have hne : slice sig s (e + 1) ≠ [] := by
    intro h; rw [h] at hl; simp at hl; omega
  have : (slice sig s (e + 1)).isEmpty = false := by simpa using hne
  simp [flankOne, this, flankMid_eq_spec _ f hne]

theorem ffm_interleave (sig : List Rat) (b : Bool) (ps ts : List Nat)
    (hlen : (interleave b ps ts).length = ps.length + ts.length)
    (hv : validSeq sig.length (interleave b ps ts) = true) :
    if b then
      findFlankMidpoints sig .decay ts.length ps ts 0 = .ok (decaysSpec sig (interleave b ps ts)) ∧
      findFlankMidpoints sig .rise (ps.length - 1) ts ps.tail 0 = .ok (risesSpec sig (interleave b ps ts))
    else
      findFlankMidpoints sig .rise ps.length ts ps 0 = .ok (risesSpec sig (interleave b ps ts)) ∧
      findFlankMidpoints sig .decay (ts.length - 1) ps ts.tail 0 = .ok (decaysSpec sig (interleave b ps ts)) := by
  fun_induction interleave b ps ts with
  | case1 p ps ts ih =>
    simp only [if_true]
    cases ts with
    | nil =>
      simp only [interleave_false_nil] at hlen ⊢
      simp at hlen
      subst hlen
      simp [ffm_zero, decaysSpec, risesSpec, flankMidsSpec]
    | cons t ts' =>
      simp only [interleave_false_cons] at hlen hv ih ⊢
      simp only [List.length_cons] at hlen
      simp only [validSeq, Bool.and_eq_true, decide_eq_true_eq] at hv
      have ih := ih (by simp only [List.length_cons]; omega) hv.2
      simp only [Bool.false_eq_true, if_false] at ih
      have hlt := validSeq_head_lt _ _ _ hv.2
      constructor
      · rw [List.length_cons, ffm_succ, flankOne_eq _ _ _ _ hv.1.1 hlt]
        simp only [List.length_cons, Nat.add_sub_cancel, List.tail_cons] at ih
        rw [ih.2]
        simp [decaysSpec, flankMidsSpec]
        rfl
      · simp only [List.length_cons, Nat.add_sub_cancel, List.tail_cons]
        rw [ih.1]
        simp [risesSpec, flankMidsSpec]
  | case2 ps t ts ih =>
    simp only [Bool.false_eq_true, if_false]
    cases ps with
    | nil =>
      simp only [interleave_true_nil] at hlen ⊢
      simp at hlen
      subst hlen
      simp [ffm_zero, decaysSpec, risesSpec, flankMidsSpec]
    | cons p ps' =>
      simp only [interleave_true_cons] at hlen hv ih ⊢
      simp only [List.length_cons] at hlen
      simp only [validSeq, Bool.and_eq_true, decide_eq_true_eq] at hv
      have ih := ih (by simp only [List.length_cons]; omega) hv.2
      simp only [if_true] at ih
      have hlt := validSeq_head_lt _ _ _ hv.2
      constructor
      · rw [List.length_cons, ffm_succ, flankOne_eq _ _ _ _ hv.1.1 hlt]
        simp only [List.length_cons, Nat.add_sub_cancel, List.tail_cons] at ih
        rw [ih.2]
        simp [risesSpec, flankMidsSpec]
        rfl
      · simp only [List.length_cons, Nat.add_sub_cancel, List.tail_cons]
        rw [ih.1]
        simp [decaysSpec, flankMidsSpec]
  | case3 b ps ts h1 h2 =>
    simp only [List.length_nil] at hlen
    have hp : ps = [] := List.eq_nil_of_length_eq_zero (by omega)
    have ht : ts = [] := List.eq_nil_of_length_eq_zero (by omega)
    subst hp ht
    cases b <;> simp [ffm_zero, decaysSpec, risesSpec, flankMidsSpec]

theorem findZerox_eq_spec (sig : List Rat) (peaks troughs : List Nat) (p0 t0 : Nat)
    (hp : peaks.head? = some p0) (ht : troughs.head? = some t0)
    (hlen : (interleave (decide (p0 < t0)) peaks troughs).length = peaks.length + troughs.length)
    (hv : validSeq sig.length (interleave (decide (p0 < t0)) peaks troughs) = true) :
    findZerox sig peaks troughs =
      .ok (risesSpec sig (interleave (decide (p0 < t0)) peaks troughs),
           decaysSpec sig (interleave (decide (p0 < t0)) peaks troughs)) := by
  obtain ⟨ps, rfl⟩ : ∃ ps, peaks = p0 :: ps := by
    cases peaks with
    | nil => simp at hp
    | cons a l => exact ⟨l, by simp at hp; rw [hp]⟩
  obtain ⟨ts, rfl⟩ : ∃ ts, troughs = t0 :: ts := by
    cases troughs with
    | nil => simp at ht
    | cons a l => exact ⟨l, by simp at ht; rw [ht]⟩
  have key := ffm_interleave sig (decide (p0 < t0)) (p0 :: ps) (t0 :: ts) hlen hv
  have e1 : idx? (p0 :: ps) 0 = .ok p0 := rfl
  have e2 : idx? (t0 :: ts) 0 = .ok t0 := rfl
  unfold findZerox
  rw [e1, e2]
  have okb : ∀ {α β : Type} (a : α) (g : α → Except Err β), (Except.ok a >>= g) = g a := fun _ _ => rfl
  simp only [okb]
  by_cases h : p0 < t0
  · simp only [h, decide_true, if_true, Nat.sub_zero] at key ⊢
    simp only [List.length_cons, Nat.add_sub_cancel, List.tail_cons] at key
    simp only [List.length_cons, Nat.add_sub_cancel, ffm_bias_one, key.1, key.2]
    rfl
  · simp only [h, decide_false, Bool.false_eq_true, if_false, Nat.sub_self] at key ⊢
    simp only [List.length_cons, Nat.add_sub_cancel, List.tail_cons] at key
    simp only [List.length_cons, Nat.add_sub_cancel, ffm_bias_one, key.1, key.2]
    rfl

end Bycycle
