import BycycleModel.BurstFeatures
import Mathlib.Tactic.Linarith
import Mathlib.Tactic.Ring
import Mathlib.Algebra.Order.Field.Basic
import Mathlib.Data.Rat.Cast.Order
/-!
# Auxiliary lemmas and proofs for C05 (burst features)

Everything lives in the namespace `Bycycle.BurstAux`; `Proofs/BurstFeatures.lean` restates the results under
their public names.
-/
namespace Bycycle.BurstAux

/-! ## ranks (`compute_amp_fraction`) -/

theorem ampConsistency_empty (pc : Bool) (dir : Direction) (decays : List Rat) :
    ampConsistency pc dir [] decays = .error .indexError := by
  simp [ampConsistency]

theorem rankAvg_def (xs : List Rat) (x : Rat) :
    rankAvg xs x = ((xs.filter fun y => decide (y < x)).length : Rat) + (((xs.filter fun y => decide (y = x)).length : Rat) + 1) / 2 := rfl

theorem ampFraction_get (va : List Rat) (i : Nat) (hi : i < va.length) :
    (ampFraction va).getD i 0 = rankAvg va (va.getD i 0) / (va.length : Rat) := by
  simp [ampFraction, List.getD_eq_getElem?_getD, hi]

theorem meanF2_range (a b : F) (q : Rat) (ha : ∀ x, a = .fin x → 0 ≤ x ∧ x ≤ 1) (hb : ∀ x, b = .fin x → 0 ≤ x ∧ x ≤ 1)
    (h : meanF2 a b = .fin q) : 0 ≤ q ∧ q ≤ 1 := by
  cases a <;> cases b <;> simp [meanF2] at h
  rename_i x y
  obtain ⟨h1, h2⟩ := ha x rfl
  obtain ⟨h3, h4⟩ := hb y rfl
  subst h
  constructor <;> linarith

theorem stepFractionSpec_range (up : Bool) (w : List Rat) (q : Rat) (h : stepFractionSpec up w = .fin q) :
    0 ≤ q ∧ q ≤ 1 := by
  unfold stepFractionSpec at h
  split at h
  · cases h
  · rename_i hw
    injection h with h
    subst h
    have hpos : (0 : Rat) < ((w.length - 1 : Nat) : Rat) := by
      have : 0 < w.length - 1 := by omega
      exact_mod_cast this
    refine ⟨div_nonneg (Nat.cast_nonneg _) hpos.le, (div_le_one hpos).2 ?_⟩
    have := List.length_filter_le (fun i =>
      if up then decide (w.getD i 0 < w.getD (i + 1) 0) else decide (w.getD (i + 1) 0 < w.getD i 0)) (List.range (w.length - 1))
    rw [List.length_range] at this
    exact_mod_cast this

theorem filter_disj_le {α} (p q r : α → Bool) (xs : List α)
    (hd : ∀ x, p x = true → q x = true → False) (hp : ∀ x, p x = true → r x = true)
    (hq : ∀ x, q x = true → r x = true) :
    (xs.filter p).length + (xs.filter q).length ≤ (xs.filter r).length := by
  induction xs with
  | nil => simp
  | cons a t ih =>
    have := hd a; have := hp a; have := hq a
    simp only [List.filter_cons]
    cases hpa : p a <;> cases hqa : q a <;> cases hra : r a <;> simp_all <;> omega

theorem filter_eq_pos (xs : List Rat) (x : Rat) (hx : x ∈ xs) :
    1 ≤ (xs.filter fun y => decide (y = x)).length := by
  have : x ∈ xs.filter fun y => decide (y = x) := by simp [hx]
  exact List.length_pos_of_mem this

theorem rankAvg_strictMono (xs : List Rat) (x y : Rat) (hx : x ∈ xs) (hy : y ∈ xs) (h : x < y) :
    rankAvg xs x < rankAvg xs y := by
  unfold rankAvg
  have h1 := filter_disj_le (fun z => decide (z < x)) (fun z => decide (z = x)) (fun z => decide (z < y)) xs
    (by intro z hz1 hz2; simp at hz1 hz2; subst hz2; exact lt_irrefl _ hz1)
    (by intro z hz; simp at hz ⊢; exact lt_trans hz h)
    (by intro z hz; simp at hz ⊢; subst hz; exact h)
  have h2 := filter_eq_pos xs x hx
  have h3 := filter_eq_pos xs y hy
  have h1' : ((xs.filter fun z => decide (z < x)).length : Rat) + ((xs.filter fun z => decide (z = x)).length : Rat)
      ≤ ((xs.filter fun z => decide (z < y)).length : Rat) := by exact_mod_cast h1
  have h2' : (1 : Rat) ≤ ((xs.filter fun z => decide (z = x)).length : Rat) := by exact_mod_cast h2
  have h3' : (1 : Rat) ≤ ((xs.filter fun z => decide (z = y)).length : Rat) := by exact_mod_cast h3
  linarith

theorem ampFraction_range (xs : List Rat) (x : Rat) (hx : x ∈ xs) :
    0 < rankAvg xs x / (xs.length : Rat) ∧ rankAvg xs x / (xs.length : Rat) ≤ 1 := by
  have hn : 0 < xs.length := List.length_pos_of_mem hx
  have hn' : (0 : Rat) < (xs.length : Rat) := by exact_mod_cast hn
  have h1 := filter_disj_le (fun z => decide (z < x)) (fun z => decide (z = x)) (fun _ => true) xs
    (by intro z hz1 hz2; simp at hz1 hz2; subst hz2; exact lt_irrefl _ hz1)
    (by intro z hz; rfl)
    (by intro z hz; rfl)
  rw [List.filter_eq_self.2 (fun _ _ => rfl)] at h1
  have h2 := filter_eq_pos xs x hx
  have h1' : ((xs.filter fun z => decide (z < x)).length : Rat) + ((xs.filter fun z => decide (z = x)).length : Rat)
      ≤ (xs.length : Rat) := by exact_mod_cast h1
  have h2' : (1 : Rat) ≤ ((xs.filter fun z => decide (z = x)).length : Rat) := by exact_mod_cast h2
  have h0 : (0 : Rat) ≤ ((xs.filter fun z => decide (z < x)).length : Rat) := Nat.cast_nonneg _
  unfold rankAvg
  refine ⟨div_pos (by linarith) hn', (div_le_one hn').2 (by linarith)⟩

/-! ## step fractions (`compute_monotonicity`) -/

theorem zip_drop_eq (w : List Rat) :
    w.zip (w.drop 1) = (List.range (w.length - 1)).map (fun i => (w.getD i 0, w.getD (i+1) 0)) := by
  apply List.ext_getElem
  · simp
  · intro i h1 h2
    simp at h1 h2
    simp [List.getD_eq_getElem?_getD]
    have : i + 1 < w.length := by omega
    have : i < w.length := by omega
    simp [*]

theorem stepFraction_eq_spec (up : Bool) (w : List Rat) : stepFraction up w = stepFractionSpec up w := by
  unfold stepFraction stepFractionSpec
  rw [zip_drop_eq]
  by_cases hw : w.length < 2
  · have : w.length - 1 = 0 := by omega
    simp [hw, this]
  · have : w.length - 1 ≠ 0 := by omega
    simp only [hw, if_false, List.isEmpty_iff, List.map_eq_nil_iff, List.range_eq_nil, this,
      List.filter_map, List.length_map, List.length_range]
    congr 3
    apply congrArg List.length
    apply List.filter_congr
    intro i _
    cases up <;> simp [Function.comp, Slots.monoRiseCmp, Slots.monoDecayCmp, Cmp.evalRat, sub_pos, sub_neg]

/-! ## ratios, `nanmin`, amplitude and period consistency -/

theorem ratio_pos_range (a b : Rat) (ha : 0 < a) (hb : 0 < b) : 0 < min a b / max a b ∧ min a b / max a b ≤ 1 := by
  have h1 : 0 < min a b := lt_min ha hb
  have h2 : 0 < max a b := lt_max_of_lt_left ha
  exact ⟨div_pos h1 h2, (div_le_one h2).2 (min_le_max)⟩

theorem ratioMinMax_comm (a b : Rat) : ratioMinMax a b = ratioMinMax b a := by
  unfold ratioMinMax; rw [min_comm, max_comm]

theorem ratioMinMax_pos (a b : Rat) (ha : 0 < a) : ratioMinMax a b = .fin (min a b / max a b) := by
  have h2 : 0 < max a b := lt_max_of_lt_left ha
  simp [ratioMinMax, F.divRat, ne_of_gt h2]

theorem atOff_zero (l : List Rat) (c : Nat) : atOff l c 0 = l.getD c 0 := by simp [atOff]
theorem atOff_one (l : List Rat) (c : Nat) : atOff l c 1 = l.getD (c + 1) 0 := by
  have : ((c : Int) + 1).toNat = c + 1 := by omega
  simp [atOff, this]
theorem atOff_neg_one (l : List Rat) (c : Nat) : atOff l c (-1) = l.getD (c - 1) 0 := by
  have : ((c : Int) + -1).toNat = c - 1 := by omega
  simp [atOff, this]

theorem nanmin_all_nan (a b c : F) (ha : a.isNan = true) (hb : b.isNan = true) (hc : c.isNan = true) :
    F.nanmin [a, b, c] = .nan := by
  cases a <;> cases b <;> cases c <;> simp_all [F.isNan, F.nanmin]

theorem nanmin_guard (a b c : F) :
    (if (a.isNan && b.isNan && c.isNan) = true then F.nan else F.nanmin [a, b, c]) = F.nanmin [a, b, c] := by
  split
  · rename_i hnan
    simp only [Bool.and_eq_true] at hnan
    rw [nanmin_all_nan _ _ _ hnan.1.1 hnan.1.2 hnan.2]
  · rfl

theorem nanmin3_fin (q1 q2 q3 : Rat) :
    ∃ q, F.nanmin [.fin q1, .fin q2, .fin q3] = .fin q ∧ (q = q1 ∨ q = q2 ∨ q = q3) := by
  simp only [F.nanmin, F.isNan, List.filter_cons, Bool.not_false, if_true, List.filter_nil, List.foldl_cons,
    List.foldl_nil, F.ltB]
  by_cases h1 : q2 < q1 <;> simp only [h1, decide_true, decide_false, if_true, if_false, Bool.false_eq_true]
  · by_cases h2 : q3 < q2 <;> simp [h2]
  · by_cases h2 : q3 < q1 <;> simp [h2]

theorem ampConsSpec_nonneg (fl : List Rat) (c : Nat) : (ampConsSpec fl c).neg? = false := by
  unfold ampConsSpec
  simp only []
  split
  · simp [F.neg?]
  · simp_all

theorem ampConsSpec_range (fl : List Rat) (c : Nat) (hc : 1 ≤ c)
    (hpos : 0 < fl.getD (2*c - 1) 0 ∧ 0 < fl.getD (2*c) 0 ∧ 0 < fl.getD (2*c + 1) 0 ∧ 0 < fl.getD (2*c + 2) 0) :
    ∃ q, ampConsSpec fl c = .fin q ∧ 0 < q ∧ q ≤ 1 := by
  have _ := hc
  obtain ⟨h0, h1, h2, h3⟩ := hpos
  unfold ampConsSpec
  simp only []
  rw [ratioMinMax_pos _ _ h1, ratioMinMax_pos _ _ h2, ratioMinMax_pos _ _ h0]
  obtain ⟨q, hq, hq'⟩ := nanmin3_fin (min (fl.getD (2*c) 0) (fl.getD (2*c+1) 0) / max (fl.getD (2*c) 0) (fl.getD (2*c+1) 0))
    (min (fl.getD (2*c+1) 0) (fl.getD (2*c+2) 0) / max (fl.getD (2*c+1) 0) (fl.getD (2*c+2) 0))
    (min (fl.getD (2*c-1) 0) (fl.getD (2*c) 0) / max (fl.getD (2*c-1) 0) (fl.getD (2*c) 0))
  have r1 := ratio_pos_range _ _ h1 h2
  have r2 := ratio_pos_range _ _ h2 h3
  have r3 := ratio_pos_range _ _ h0 h1
  have hqr : 0 < q ∧ q ≤ 1 := by
    rcases hq' with h | h | h <;> (rw [h]; assumption)
  rw [hq]
  refine ⟨q, ?_, hqr⟩
  have : ¬ q < 0 := not_lt.2 hqr.1.le
  simp [F.neg?, this]

theorem periodConsistency_spec (periods : List Rat) (hn : 0 < periods.length) (hpos : ∀ p ∈ periods, 0 < p) :
    periodConsistency .both periods =
      .ok ((List.range periods.length).map fun c =>
        if c = 0 ∨ c + 1 = periods.length then F.nan
        else F.fin (min (min (periods.getD c 0) (periods.getD (c - 1) 0) / max (periods.getD c 0) (periods.getD (c - 1) 0))
                        (min (periods.getD (c + 1) 0) (periods.getD c 0) / max (periods.getD (c + 1) 0) (periods.getD c 0)))) := by
  unfold periodConsistency
  simp only [Nat.ne_of_gt hn, if_false]
  congr 1
  apply List.map_congr_left
  intro c hc
  rw [List.mem_range] at hc
  split
  · rfl
  · rename_i hint
    have hget : ∀ i, i < periods.length → 0 < periods.getD i 0 := by
      intro i hi
      apply hpos
      rw [List.getD_eq_getElem?_getD, List.getElem?_eq_getElem hi]
      simp
    have hc1 : c + 1 < periods.length := by omega
    rw [atOff_zero, atOff_one, atOff_neg_one, ratioMinMax_pos _ _ (hget c hc), ratioMinMax_pos _ _ (hget (c+1) hc1)]
    generalize min (periods.getD c 0) (periods.getD (c - 1) 0) / max (periods.getD c 0) (periods.getD (c - 1) 0) = x
    generalize min (periods.getD (c + 1) 0) (periods.getD c 0) / max (periods.getD (c + 1) 0) (periods.getD c 0) = y
    show (if (F.fin y).ltB (F.fin x) then F.fin y else F.fin x) = _
    simp only [F.ltB]
    by_cases h : y < x
    · simp [h, min_eq_right (le_of_lt h)]
    · simp [h, min_eq_left (not_lt.1 h)]

/-- the ONE-SIDED period consistencies (`direction='next'` / `'last'`, used when burst edges are recomputed): the ratio with the FOLLOWING resp. the
PRECEDING period only. -/
theorem periodConsistency_dir_spec (periods : List Rat) (hn : 0 < periods.length) (hpos : ∀ p ∈ periods, 0 < p) :
    periodConsistency .next periods =
      .ok ((List.range periods.length).map fun c =>
        if c = 0 ∨ c + 1 = periods.length then F.nan
        else F.fin (min (periods.getD (c + 1) 0) (periods.getD c 0) / max (periods.getD (c + 1) 0) (periods.getD c 0))) ∧
    periodConsistency .last periods =
      .ok ((List.range periods.length).map fun c =>
        if c = 0 ∨ c + 1 = periods.length then F.nan
        else F.fin (min (periods.getD c 0) (periods.getD (c - 1) 0) / max (periods.getD c 0) (periods.getD (c - 1) 0))) := by
  have hget : ∀ i, i < periods.length → 0 < periods.getD i 0 := by
    intro i hi
    apply hpos
    rw [List.getD_eq_getElem?_getD, List.getElem?_eq_getElem hi]
    simp
  constructor
  · unfold periodConsistency
    simp only [Nat.ne_of_gt hn, if_false]
    congr 1
    apply List.map_congr_left
    intro c hc
    rw [List.mem_range] at hc
    split
    · rfl
    · rename_i hint
      have hc1 : c + 1 < periods.length := by omega
      rw [atOff_zero, atOff_one, ratioMinMax_pos _ _ (hget (c+1) hc1)]
  · unfold periodConsistency
    simp only [Nat.ne_of_gt hn, if_false]
    congr 1
    apply List.map_congr_left
    intro c hc
    rw [List.mem_range] at hc
    split
    · rfl
    · rename_i hint
      rw [atOff_zero, atOff_neg_one, ratioMinMax_pos _ _ (hget c hc)]

theorem flatMap_pair_getD {α β} (f : α → List β) (hf : ∀ x, (f x).length = 2) (d : β) (l : List α)
    (c : Nat) (hc : c < l.length) (k : Nat) (hk : k < 2) :
    (l.flatMap f).getD (2 * c + k) d = (f l[c]).getD k d := by
  induction l generalizing c with
  | nil => simp at hc
  | cons a t ih =>
    rw [List.flatMap_cons]
    cases c with
    | zero =>
      simp only [List.getD_eq_getElem?_getD, Nat.mul_zero, Nat.zero_add, List.getElem_cons_zero]
      rw [List.getElem?_append_left (by rw [hf]; exact hk)]
    | succ c =>
      have hc' : c < t.length := by simpa using hc
      simp only [List.getD_eq_getElem?_getD, List.getElem_cons_succ] at ih ⊢
      rw [List.getElem?_append_right (by rw [hf]; omega), hf]
      have : 2 * (c + 1) + k - 2 = 2 * c + k := by omega
      rw [this]
      exact ih c hc'

theorem flankSeq_get (pc : Bool) (rises decays : List Rat) (c : Nat) (hc : c < rises.length) :
    (flankSeq pc rises decays).getD (2 * c) 0 = (if pc then rises.getD c 0 else decays.getD c 0) ∧
    (flankSeq pc rises decays).getD (2 * c + 1) 0 = (if pc then decays.getD c 0 else rises.getD c 0) := by
  unfold flankSeq
  have hf : ∀ x, ((fun c => if pc then [rises.getD c 0, decays.getD c 0] else [decays.getD c 0, rises.getD c 0]) x).length = 2 := by
    intro x; cases pc <;> simp
  have hc' : c < (List.range rises.length).length := by simpa using hc
  have h0 := flatMap_pair_getD _ hf (0 : Rat) (List.range rises.length) c hc' 0 (by omega)
  have h1 := flatMap_pair_getD _ hf (0 : Rat) (List.range rises.length) c hc' 1 (by omega)
  rw [Nat.add_zero] at h0
  rw [h0, h1]
  cases pc <;> simp [hc]


theorem ampCons_interior (pc : Bool) (rises decays : List Rat) (hlen : rises.length = decays.length)
    (c : Nat) (h0 : c ≠ 0) (h1 : c + 1 < rises.length) :
    (let offs := if pc then (Slots.acPeakLast, Slots.acPeakNext) else (Slots.acTroughLast, Slots.acTroughNext)
     let cur := ratioMinMax (atOff rises c 0) (atOff decays c 0)
     let last := ratioMinMax (atOff rises c offs.1.1) (atOff decays c offs.1.2)
     let next := ratioMinMax (atOff rises c offs.2.1) (atOff decays c offs.2.2)
     F.nanmin [cur, next, last]) =
    (let g := fun i => (flankSeq pc rises decays).getD i 0
     F.nanmin [ratioMinMax (g (2*c)) (g (2*c + 1)), ratioMinMax (g (2*c + 1)) (g (2*c + 2)), ratioMinMax (g (2*c - 1)) (g (2*c))]) := by
  have _ := hlen
  obtain ⟨a0, a1⟩ := flankSeq_get pc rises decays c (by omega)
  obtain ⟨b0, b1⟩ := flankSeq_get pc rises decays (c + 1) (by omega)
  obtain ⟨c0, c1⟩ := flankSeq_get pc rises decays (c - 1) (by omega)
  have e1 : 2 * (c + 1) = 2 * c + 2 := by omega
  have e2 : 2 * (c - 1) + 1 = 2 * c - 1 := by omega
  rw [e1] at b0
  rw [e2] at c1
  simp only [a0, a1, b0, c1]
  cases pc
  · simp only [Slots.acTroughLast, Slots.acTroughNext, atOff_zero, atOff_one, atOff_neg_one, if_false, Bool.false_eq_true]
    rw [ratioMinMax_comm (decays.getD c 0) (rises.getD c 0)]
  · simp only [Slots.acPeakLast, Slots.acPeakNext, atOff_zero, atOff_one, atOff_neg_one, if_true]
    rw [ratioMinMax_comm (decays.getD c 0) (rises.getD (c + 1) 0), ratioMinMax_comm (decays.getD (c - 1) 0) (rises.getD c 0)]

theorem ampConsistency_eq_spec (pc : Bool) (rises decays : List Rat) (hlen : rises.length = decays.length)
    (hn : 0 < rises.length) :
    ampConsistency pc .both rises decays =
      .ok ((List.range rises.length).map fun c =>
        if c = 0 ∨ c + 1 = rises.length then F.nan else ampConsSpec (flankSeq pc rises decays) c) := by
  unfold ampConsistency
  simp only [Nat.ne_of_gt hn, if_false, List.map_map]
  congr 1
  apply List.map_congr_left
  intro c hc
  rw [List.mem_range] at hc
  simp only [Function.comp]
  by_cases hint : c = 0 ∨ c + 1 = rises.length
  · simp [hint, F.neg?]
  · simp only [hint, if_false]
    have h0 : c ≠ 0 := fun h => hint (Or.inl h)
    have h1 : c + 1 < rises.length := by omega
    have key := ampCons_interior pc rises decays hlen c h0 h1
    simp only [] at key
    unfold ampConsSpec
    simp only []
    rw [← key]
    simp only [nanmin_guard]

/-! ## directional variants -/

/-- the three neighbour ratios of the model, term by term, are the three adjacent flank-pair ratios. -/
theorem ampCons_interior_terms (pc : Bool) (rises decays : List Rat) (hlen : rises.length = decays.length)
    (c : Nat) (h0 : c ≠ 0) (h1 : c + 1 < rises.length) :
    let offs := if pc then (Slots.acPeakLast, Slots.acPeakNext) else (Slots.acTroughLast, Slots.acTroughNext)
    let g := fun i => (flankSeq pc rises decays).getD i 0
    ratioMinMax (atOff rises c 0) (atOff decays c 0) = ratioMinMax (g (2*c)) (g (2*c + 1)) ∧
    ratioMinMax (atOff rises c offs.2.1) (atOff decays c offs.2.2) = ratioMinMax (g (2*c + 1)) (g (2*c + 2)) ∧
    ratioMinMax (atOff rises c offs.1.1) (atOff decays c offs.1.2) = ratioMinMax (g (2*c - 1)) (g (2*c)) := by
  have _ := hlen
  obtain ⟨a0, a1⟩ := flankSeq_get pc rises decays c (by omega)
  obtain ⟨b0, b1⟩ := flankSeq_get pc rises decays (c + 1) (by omega)
  obtain ⟨c0, c1⟩ := flankSeq_get pc rises decays (c - 1) (by omega)
  have e1 : 2 * (c + 1) = 2 * c + 2 := by omega
  have e2 : 2 * (c - 1) + 1 = 2 * c - 1 := by omega
  rw [e1] at b0
  rw [e2] at c1
  simp only [a0, a1, b0, c1]
  cases pc
  · simp only [Slots.acTroughLast, Slots.acTroughNext, atOff_zero, atOff_one, atOff_neg_one, if_false, Bool.false_eq_true]
    refine ⟨?_, ?_, ?_⟩ <;> first | trivial | exact ratioMinMax_comm _ _
  · simp only [Slots.acPeakLast, Slots.acPeakNext, atOff_zero, atOff_one, atOff_neg_one, if_true]
    refine ⟨?_, ?_, ?_⟩ <;> first | trivial | exact ratioMinMax_comm _ _

theorem nanmin2_all_nan (a b : F) (ha : a.isNan = true) (hb : b.isNan = true) :
    F.nanmin [a, b] = .nan := by
  cases a <;> cases b <;> simp_all [F.isNan, F.nanmin]

/-- the all-NaN pre-test of `compute_amp_consistency` is redundant for every direction. -/
theorem nanmin_guard_next (a b c : F) :
    (if (a.isNan && b.isNan && c.isNan) = true then F.nan else F.nanmin [a, b]) = F.nanmin [a, b] := by
  split
  · rename_i hnan
    simp only [Bool.and_eq_true] at hnan
    rw [nanmin2_all_nan _ _ hnan.1.1 hnan.1.2]
  · rfl

theorem nanmin_guard_last (a b c : F) :
    (if (a.isNan && b.isNan && c.isNan) = true then F.nan else F.nanmin [a, c]) = F.nanmin [a, c] := by
  split
  · rename_i hnan
    simp only [Bool.and_eq_true] at hnan
    rw [nanmin2_all_nan _ _ hnan.1.1 hnan.2]
  · rfl

theorem ampConsistency_dir_eq_spec (pc : Bool) (dir : Direction) (rises decays : List Rat)
    (hlen : rises.length = decays.length) (hn : 0 < rises.length) :
    ampConsistency pc dir rises decays =
      .ok ((List.range rises.length).map fun c =>
        if c = 0 ∨ c + 1 = rises.length then F.nan else ampConsSpecDir dir (flankSeq pc rises decays) c) := by
  unfold ampConsistency
  simp only [Nat.ne_of_gt hn, if_false, List.map_map]
  congr 1
  apply List.map_congr_left
  intro c hc
  rw [List.mem_range] at hc
  simp only [Function.comp]
  by_cases hint : c = 0 ∨ c + 1 = rises.length
  · simp [hint, F.neg?]
  · simp only [hint, if_false]
    have h0 : c ≠ 0 := fun h => hint (Or.inl h)
    have h1 : c + 1 < rises.length := by omega
    obtain ⟨k1, k2, k3⟩ := ampCons_interior_terms pc rises decays hlen c h0 h1
    simp only [] at k1 k2 k3
    unfold ampConsSpecDir
    simp only []
    rw [← k1, ← k2, ← k3]
    cases dir <;> simp only [nanmin_guard, nanmin_guard_next, nanmin_guard_last]

theorem ampConsSpecDir_both (fl : List Rat) (c : Nat) : ampConsSpecDir .both fl c = ampConsSpec fl c := rfl

end Bycycle.BurstAux
