import BycycleModel.Shape
import Proofs.ShapeAux
/-!
# Helper lemmas for C04 (shape features)
-/
namespace Bycycle

/-- peak-centred table: the transcribed arithmetic equals the documented definitions. The rows must be
inside the signal and tile (both guaranteed by C01) — tiling is what makes the band-amplitude windows
`[troughs[i], troughs[i+1])` coincide with `[last side, next side)`. -/
theorem shapePeak_eq_spec (x amp : List Rat) (rows : List SampleRow) (hne : rows ≠ [])
    (hin : ∀ r ∈ rows, r.inside x.length) (ht : tiles rows) :
    shapePeak x amp rows = .ok (rows.map (shapeSpecPeak x amp)) :=
  shapePeak_eq_spec_aux x amp rows hne hin ht

/-- trough-centred table: analysing the NEGATED signal, renaming and flipping as generated from
`rename_extrema_df` gives the documented definitions read against the ORIGINAL signal with trough-centred
column names (`amp` is the band amplitude, which is the same for `x` and `-x`). -/
theorem shapeTrough_eq_spec (x amp : List Rat) (rows : List SampleRow) (hne : rows ≠ [])
    (hin : ∀ r ∈ rows, r.inside x.length) (ht : tiles rows) :
    shapeFeatures .trough (x.map (- ·)) amp rows =
      .ok (rows.map fun r => shapeSpecTrough x amp (Slots.renameSamples r)) := by
  have hin' : ∀ r ∈ rows, r.inside (x.map (- ·)).length := by
    intro r hr; rw [List.length_map]; exact hin r hr
  unfold shapeFeatures
  simp only [shapePeak_eq_spec_aux (x.map (- ·)) amp rows hne hin' ht, Except.map, List.map_map,
    Except.ok.injEq]
  apply List.map_congr_left
  intro r hr
  exact flip_rename_spec x amp r (hin r hr)

theorem shapeSpecPeak_identities (x amp : List Rat) (r : SampleRow) (h : r.inside x.length) :
    (shapeSpecPeak x amp r).period = r.nextTrough - r.lastTrough ∧
    (shapeSpecPeak x amp r).period = (shapeSpecPeak x amp r).timeRise + (shapeSpecPeak x amp r).timeDecay ∧
    (shapeSpecPeak x amp r).voltAmp = ((shapeSpecPeak x amp r).voltRise + (shapeSpecPeak x amp r).voltDecay) / 2 ∧
    (∃ q, (shapeSpecPeak x amp r).timeRdsym = .fin q ∧ 0 < q ∧ q < 1) ∧
    (∃ q, (shapeSpecPeak x amp r).timePtsym = .fin q ∧ 0 ≤ q ∧ q ≤ 1) := by
  obtain ⟨h1, h2, h3, h4, h5, h6, h7, h8, h9, h10⟩ := h
  refine ⟨rfl, ?_, rfl, ?_, ?_⟩
  · simp only [shapeSpecPeak]; omega
  · exact divRat_strict _ _ (by omega) (by omega)
  · simp only [shapeSpecPeak]
    exact divRat_weak _ _ (by omega) (by omega) (by omega)

theorem shapeSpecTrough_identities (x amp : List Rat) (r : SampleRow) (h : r.inside x.length) :
    let s := shapeSpecTrough x amp (Slots.renameSamples r)
    s.period = (Slots.renameSamples r).nextPeak - (Slots.renameSamples r).lastPeak ∧
    s.period = s.timeRise + s.timeDecay ∧
    s.voltAmp = (s.voltRise + s.voltDecay) / 2 ∧
    (∃ q, s.timeRdsym = .fin q ∧ 0 < q ∧ q < 1) ∧
    (∃ q, s.timePtsym = .fin q ∧ 0 ≤ q ∧ q ≤ 1) := by
  obtain ⟨h1, h2, h3, h4, h5, h6, h7, h8, h9, h10⟩ := h
  intro s
  refine ⟨rfl, ?_, rfl, ?_, ?_⟩
  · simp only [s, shapeSpecTrough, Slots.renameSamples]; omega
  · simp only [s, shapeSpecTrough, Slots.renameSamples]
    exact divRat_strict _ _ (by omega) (by omega)
  · simp only [s, shapeSpecTrough, Slots.renameSamples]
    exact divRat_weak _ _ (by omega) (by omega) (by omega)

/-- band_amp is the mean over the half-open window `[last side, next side)`: the sample at the next side
extremum does not contribute, the one at the last side does. -/
theorem bandAmp_window (x amp : List Rat) (r : SampleRow) (h : r.inside x.length) (hamp : amp.length = x.length) :
    (shapeSpecPeak x amp r).bandAmp =
      .fin (sumRat ((List.range (r.nextTrough - r.lastTrough).toNat).map fun j => amp.getD (r.lastTrough.toNat + j) 0)
            / ((r.nextTrough - r.lastTrough).toNat : Rat)) := by
  obtain ⟨h1, h2, h3, h4, h5, h6, h7, h8, h9, h10⟩ := h
  have e : (r.nextTrough - r.lastTrough).toNat = r.nextTrough.toNat - r.lastTrough.toNat := by omega
  rw [e]
  exact specBand_window amp r.lastTrough.toNat r.nextTrough.toNat (by omega) (by omega)

end Bycycle
