import BycycleModel.Edges
import Proofs.Detect
import Proofs.BurstFeatures
import Proofs.EdgesAux
/-!
# Helper lemmas for C16 (edge recomputation)
-/
namespace Bycycle

open EdgesAux in
/-- row `c` of the specification's edited table. -/
theorem editedSpec_getElem? (pc : Bool) (rows : List EdgeRow) (c : Nat) :
    (editedSpec pc rows)[c]? = rows[c]?.map fun r =>
      if isStartEdge (rows.map (·.isBurst)) c then upd (val pc rows c .next) r
      else if isEndEdge (rows.map (·.isBurst)) c then upd (val pc rows c .last) r else r := by
  unfold editedSpec
  simp only [List.getElem?_map, List.getElem?_zipIdx, Nat.zero_add]
  cases rows[c]? with
  | none => rfl
  | some r =>
    simp only [Option.map_some]
    congr 1
    by_cases hs : isStartEdge (rows.map (·.isBurst)) c = true
    · by_cases hb : c = 0 ∨ c + 1 = rows.length <;> simp [hs, hb, upd, val, perVal]
    · by_cases he : isEndEdge (rows.map (·.isBurst)) c = true
      · by_cases hb : c = 0 ∨ c + 1 = rows.length <;> simp [hs, he, hb, upd, val, perVal]
      · simp [hs, he]

open EdgesAux in
/-- the loop over burst starts / ends with its three-row windows writes exactly the edited table of the
specification (old labels come from consistency detection: first and last cycle not bursting). -/
theorem edited_eq_spec (pc : Bool) (rows : List EdgeRow) (hwf : labelsWellFormed (rows.map (·.isBurst))) :
    (edgeOps (rows.map (·.isBurst))).foldlM (fun acc (op : Nat × Direction) => recomputeEdge pc acc op.1 op.2) rows
      = .ok (editedSpec pc rows) := by
  rw [edgeOps_eq_scan _ hwf,
    foldlM_eq pc rows _ rows (fun op hop => by simpa using opsScan_bound _ 0 op hop) rfl rfl rfl]
  congr 1
  apply List.ext_getElem?
  intro c
  rw [applyOps_get, editedSpec_getElem?]
  cases hr : rows[c]? with
  | none => rfl
  | some r =>
    have hc : c < rows.length := by
      by_contra hn
      rw [List.getElem?_eq_none (by omega)] at hr
      cases hr
    rw [opsScan_filter _ 0 c (by simpa using hc)]
    simp only [Nat.not_lt_zero, if_false, Nat.sub_zero, Option.map_some]
    congr 1
    cases isEndEdge (rows.map (·.isBurst)) c <;> cases isStartEdge (rows.map (·.isBurst)) c <;> simp [upd]

/-- the whole routine: edit, then the threshold-and-run rule on the edited table. -/
theorem recomputeEdges_eq_spec (pc : Bool) (rows : List EdgeRow) (th : CycThresh)
    (hwf : labelsWellFormed (rows.map (·.isBurst))) (hv : th.valid) (hk : rows = [] ∨ 0 ≤ th.minN) :
    recomputeEdges pc rows th =
      .ok (((editedSpec pc rows).zip (cyclesSpec ((editedSpec pc rows).map (·.toCyc)) th)).map fun p => { p.1 with isBurst := p.2 }) := by
  have hk' : (editedSpec pc rows).map (·.toCyc) = [] ∨ 0 ≤ th.minN := by
    rcases hk with h | h
    · left; subst h; rfl
    · right; exact h
  unfold recomputeEdges
  rw [edited_eq_spec pc rows hwf]
  simp only [bind, Except.bind]
  rw [detectCycles_eq_spec _ th hv hk']

theorem editedSpec_length (pc : Bool) (rows : List EdgeRow) : (editedSpec pc rows).length = rows.length := by
  simp [editedSpec]

/-- frame: every field other than the two consistency features is untouched, in every row. -/
theorem editedSpec_frame (pc : Bool) (rows : List EdgeRow) (c : Nat) (r : EdgeRow) (hr : rows[c]? = some r) :
    ∃ r', (editedSpec pc rows)[c]? = some r' ∧ r'.voltRise = r.voltRise ∧ r'.voltDecay = r.voltDecay ∧ r'.period = r.period ∧
      r'.ampFraction = r.ampFraction ∧ r'.monotonicity = r.monotonicity ∧ r'.isBurst = r.isBurst := by
  rw [editedSpec_getElem?, hr]
  refine ⟨_, rfl, ?_⟩
  split
  · simp [EdgesAux.upd]
  · split <;> simp [EdgesAux.upd]

/-- only cycles immediately outside a burst may change. -/
theorem editedSpec_untouched (pc : Bool) (rows : List EdgeRow) (c : Nat)
    (h : isStartEdge (rows.map (·.isBurst)) c = false ∧ isEndEdge (rows.map (·.isBurst)) c = false) :
    (editedSpec pc rows)[c]? = rows[c]? := by
  rw [editedSpec_getElem?]
  cases rows[c]? with
  | none => rfl
  | some r => simp [h.1, h.2]

/-- burst cycles themselves are never edges, hence never edited. -/
theorem burst_not_edge (b : List Bool) (c : Nat) (h : b.getD c false = true) :
    isStartEdge b c = false ∧ isEndEdge b c = false := by
  unfold isStartEdge isEndEdge
  rw [h]
  simp

/-- the new value at an interior edge cycle is the one-sided consistency looking into the burst. -/
theorem editedSpec_value (pc : Bool) (rows : List EdgeRow) (c : Nat) (r : EdgeRow) (hr : rows[c]? = some r)
    (hint : 0 < c ∧ c + 1 < rows.length) :
    (isStartEdge (rows.map (·.isBurst)) c = true →
      ∃ r', (editedSpec pc rows)[c]? = some r' ∧
        r'.ampCons = ampConsSpecDir .next (flankSeq pc (rows.map (·.voltRise)) (rows.map (·.voltDecay))) c ∧
        r'.perCons = ratioMinMax ((rows.map (·.period)).getD (c + 1) 0) ((rows.map (·.period)).getD c 0)) ∧
    (isStartEdge (rows.map (·.isBurst)) c = false → isEndEdge (rows.map (·.isBurst)) c = true →
      ∃ r', (editedSpec pc rows)[c]? = some r' ∧
        r'.ampCons = ampConsSpecDir .last (flankSeq pc (rows.map (·.voltRise)) (rows.map (·.voltDecay))) c ∧
        r'.perCons = ratioMinMax ((rows.map (·.period)).getD c 0) ((rows.map (·.period)).getD (c - 1) 0)) := by
  have hb : ¬ (c = 0 ∨ c + 1 = rows.length) := by omega
  constructor
  · intro hs
    rw [editedSpec_getElem?, hr]
    refine ⟨_, rfl, ?_⟩
    simp [hs, EdgesAux.upd, EdgesAux.val, EdgesAux.perVal, hb]
  · intro hs he
    rw [editedSpec_getElem?, hr]
    refine ⟨_, rfl, ?_⟩
    simp [hs, he, EdgesAux.upd, EdgesAux.val, EdgesAux.perVal, hb]

namespace EdgesAux

/-! ### re-thresholding the edited table -/

theorem qualifies_congr (T T' : List CycRow) (th : CycThresh) (c : Nat) (hlen : T'.length = T.length)
    (h : T'[c]? = T[c]?) : qualifies T' th c = qualifies T th c := by
  unfold qualifies
  rw [h, hlen]

/-- a cycle that is not an edge qualifies in the edited table iff it did in the old one. -/
theorem edited_qual_eq (pc : Bool) (rows : List EdgeRow) (th : CycThresh) (c : Nat)
    (hne : isStartEdge (rows.map (·.isBurst)) c = false ∧ isEndEdge (rows.map (·.isBurst)) c = false) :
    qualifies ((editedSpec pc rows).map (·.toCyc)) th c = qualifies (rows.map (·.toCyc)) th c := by
  apply qualifies_congr
  · simp [editedSpec_length]
  · rw [List.getElem?_map, List.getElem?_map, editedSpec_untouched pc rows c hne]

theorem old_label_qual (rows : List EdgeRow) (th : CycThresh)
    (hold : rows.map (·.isBurst) = cyclesSpec (rows.map (·.toCyc)) th) (j : Nat)
    (hb : (rows.map (·.isBurst)).getD j false = true) :
    qualifies (rows.map (·.toCyc)) th j = true ∧
      th.minN ≤ ((runLenAt (qualMask (rows.map (·.toCyc)) th) j : Nat) : Rat) := by
  rw [hold] at hb
  exact cyclesSpec_sound _ _ _ hb

/-- an edge cycle did not qualify in the old table (otherwise it would have been part of the burst). -/
theorem edge_not_qual (rows : List EdgeRow) (th : CycThresh)
    (hold : rows.map (·.isBurst) = cyclesSpec (rows.map (·.toCyc)) th) (c : Nat)
    (hedge : isStartEdge (rows.map (·.isBurst)) c = true ∨ isEndEdge (rows.map (·.isBurst)) c = true) :
    qualifies (rows.map (·.toCyc)) th c = false := by
  cases hq : qualifies (rows.map (·.toCyc)) th c with
  | false => rfl
  | true =>
    exfalso
    rcases hedge with hs | he
    · unfold isStartEdge at hs
      simp only [Bool.and_eq_true, Bool.not_eq_true'] at hs
      obtain ⟨h0, h1⟩ := hs
      obtain ⟨hq1, hr1⟩ := old_label_qual rows th hold (c + 1) h1
      have hstep := runLenAt_step (qualMask (rows.map (·.toCyc)) th) c
        (by rw [qualMask_getD]; exact hq) (by rw [qualMask_getD]; exact hq1)
      have := cyclesSpec_complete (rows.map (·.toCyc)) th c hq (by rw [hstep]; exact hr1)
      rw [← hold, h0] at this
      cases this
    · unfold isEndEdge at he
      simp only [Bool.and_eq_true, Bool.not_eq_true', decide_eq_true_eq] at he
      obtain ⟨⟨hc, h1⟩, h0⟩ := he
      obtain ⟨hq1, hr1⟩ := old_label_qual rows th hold (c - 1) h1
      have e : c - 1 + 1 = c := by omega
      have hstep := runLenAt_step (qualMask (rows.map (·.toCyc)) th) (c - 1)
        (by rw [qualMask_getD]; exact hq1) (by rw [e, qualMask_getD]; exact hq)
      rw [e] at hstep
      have := cyclesSpec_complete (rows.map (·.toCyc)) th c hq (by rw [← hstep]; exact hr1)
      rw [← hold, h0] at this
      cases this

theorem not_edge_of_qual (rows : List EdgeRow) (th : CycThresh)
    (hold : rows.map (·.isBurst) = cyclesSpec (rows.map (·.toCyc)) th) (c : Nat)
    (hq : qualifies (rows.map (·.toCyc)) th c = true) :
    isStartEdge (rows.map (·.isBurst)) c = false ∧ isEndEdge (rows.map (·.isBurst)) c = false := by
  constructor
  · cases hs : isStartEdge (rows.map (·.isBurst)) c with
    | false => rfl
    | true => rw [edge_not_qual rows th hold c (Or.inl hs)] at hq; cases hq
  · cases he : isEndEdge (rows.map (·.isBurst)) c with
    | false => rfl
    | true => rw [edge_not_qual rows th hold c (Or.inr he)] at hq; cases hq

/-- every cycle that qualified before the edit still qualifies after it. -/
theorem qual_le (pc : Bool) (rows : List EdgeRow) (th : CycThresh)
    (hold : rows.map (·.isBurst) = cyclesSpec (rows.map (·.toCyc)) th) :
    maskLe (qualMask (rows.map (·.toCyc)) th) (qualMask ((editedSpec pc rows).map (·.toCyc)) th) := by
  refine ⟨by simp [qualMask_length, editedSpec_length], ?_⟩
  intro i hi
  rw [qualMask_getD] at hi ⊢
  rw [edited_qual_eq pc rows th i (not_edge_of_qual rows th hold i hi)]
  exact hi

/-! ### maximal runs -/

theorem le_leadTrue_iff (l : List Bool) (k : Nat) :
    k ≤ leadTrue l ↔ ∀ t, t < k → l.getD t false = true := by
  induction l generalizing k with
  | nil =>
    simp only [leadTrue, Nat.le_zero_eq]
    constructor
    · intro h; subst h; intro t ht; omega
    · intro h
      by_contra hk
      have := h 0 (by omega)
      simp at this
  | cons b bs ih =>
    cases b with
    | false =>
      simp only [leadTrue, Nat.le_zero_eq]
      constructor
      · intro h; subst h; intro t ht; omega
      · intro h
        by_contra hk
        have := h 0 (by omega)
        simp at this
    | true =>
      simp only [leadTrue]
      cases k with
      | zero => simp
      | succ k =>
        rw [Nat.succ_le_succ_iff, ih]
        constructor
        · intro h t ht
          cases t with
          | zero => simp
          | succ t => simpa using h t (by omega)
        · intro h t ht
          simpa using h (t + 1) (by omega)

theorem leadTrue_eq_of_iff (a b : List Bool)
    (h : ∀ k, (∀ t, t < k → a.getD t false = true) ↔ (∀ t, t < k → b.getD t false = true)) :
    leadTrue a = leadTrue b := by
  apply Nat.le_antisymm
  · exact (le_leadTrue_iff b _).2 ((h _).1 ((le_leadTrue_iff a _).1 (Nat.le_refl _)))
  · exact (le_leadTrue_iff a _).2 ((h _).2 ((le_leadTrue_iff b _).1 (Nat.le_refl _)))

theorem rev_take_getD (m : List Bool) (i t : Nat) (hi : i ≤ m.length) :
    ((m.take i).reverse).getD t false = (decide (t < i) && m.getD (i - 1 - t) false) := by
  have hl : (m.take i).length = i := by simp [hi]
  by_cases h : t < i
  · rw [List.getD_eq_getElem?_getD, List.getElem?_reverse (by omega), hl, List.getElem?_take,
      if_pos (by omega), List.getD_eq_getElem?_getD]
    simp [h]
  · rw [List.getD_eq_getElem?_getD, List.getElem?_eq_none (by simp; omega)]
    simp [h]

/-- if `a ⊑ b` and `a` is true on the whole connected component of `i` in `b`, the maximal runs through `i`
have the same length. -/
theorem runLenAt_eq_of_component (a b : List Bool) (i : Nat) (hle : maskLe a b)
    (hbi : b.getD i false = true)
    (hcomp : ∀ j, (∀ t, min i j ≤ t → t ≤ max i j → b.getD t false = true) → a.getD j false = true) :
    runLenAt a i = runLenAt b i := by
  have hai : a.getD i false = true :=
    hcomp i (fun t h1 h2 => by have : t = i := by omega
                               subst this; exact hbi)
  have hia : i < a.length := getD_true_lt hai
  have hib : i < b.length := getD_true_lt hbi
  unfold runLenAt
  rw [hai, hbi, if_pos rfl, if_pos rfl]
  congr 1
  · apply leadTrue_eq_of_iff
    intro k
    simp only [rev_take_getD a i _ (by omega), rev_take_getD b i _ (by omega), Bool.and_eq_true,
      decide_eq_true_eq]
    constructor
    · intro h t ht
      exact ⟨(h t ht).1, hle.2 _ (h t ht).2⟩
    · intro h t ht
      refine ⟨(h t ht).1, hcomp _ ?_⟩
      intro s h1 h2
      have hti := (h t ht).1
      by_cases hs : s = i
      · subst hs; exact hbi
      · have e : s = i - 1 - (i - 1 - s) := by omega
        rw [e]
        exact (h (i - 1 - s) (by omega)).2
  · apply leadTrue_eq_of_iff
    intro k
    simp only [List.getD_eq_getElem?_getD, List.getElem?_drop]
    simp only [← List.getD_eq_getElem?_getD]
    constructor
    · intro h t ht
      exact hle.2 _ (h t ht)
    · intro h t ht
      apply hcomp
      intro s h1 h2
      have e : s = i + (s - i) := by omega
      rw [e]
      exact h (s - i) (by omega)

end EdgesAux

open EdgesAux in
/-- with unchanged thresholds every previously bursting cycle stays bursting: if the old labels are the
threshold-and-run rule of the old table, they are pointwise below the new labels. -/
theorem edges_grow (pc : Bool) (rows : List EdgeRow) (th : CycThresh)
    (hold : rows.map (·.isBurst) = cyclesSpec (rows.map (·.toCyc)) th) :
    maskLe (rows.map (·.isBurst)) (cyclesSpec ((editedSpec pc rows).map (·.toCyc)) th) := by
  rw [hold]
  exact minRunSpec_antitone_mono _ _ _ _ (qual_le pc rows th hold) (le_refl _)

open EdgesAux in
/-- bursts only grow at their edges: every newly labelled cycle is connected to a previously bursting
cycle through newly labelled cycles. -/
theorem edges_connected (pc : Bool) (rows : List EdgeRow) (th : CycThresh)
    (hold : rows.map (·.isBurst) = cyclesSpec (rows.map (·.toCyc)) th) (i : Nat)
    (hi : (cyclesSpec ((editedSpec pc rows).map (·.toCyc)) th).getD i false = true) :
    ∃ j, (rows.map (·.isBurst)).getD j false = true ∧
      ∀ t, min i j ≤ t → t ≤ max i j → (cyclesSpec ((editedSpec pc rows).map (·.toCyc)) th).getD t false = true := by
  obtain ⟨hq', hr'⟩ := cyclesSpec_sound _ th i hi
  have hle := qual_le pc rows th hold
  -- it suffices to reach an old burst cycle through cycles that qualify in the edited table
  suffices hsuff : ∃ j, (rows.map (·.isBurst)).getD j false = true ∧
      ∀ t, min i j ≤ t → t ≤ max i j →
        (qualMask ((editedSpec pc rows).map (·.toCyc)) th).getD t false = true by
    obtain ⟨j, hj, hconn⟩ := hsuff
    refine ⟨j, hj, ?_⟩
    intro t h1 h2
    have hqt := hconn t h1 h2
    rw [qualMask_getD] at hqt
    apply cyclesSpec_complete _ th t hqt
    have hrun : runLenAt (qualMask ((editedSpec pc rows).map (·.toCyc)) th) t
        = runLenAt (qualMask ((editedSpec pc rows).map (·.toCyc)) th) i := by
      by_cases hit : i ≤ t
      · exact (runLenAt_const _ i t hit (fun s h3 h4 => hconn s (by omega) (by omega))).symm
      · exact runLenAt_const _ t i (by omega) (fun s h3 h4 => hconn s (by omega) (by omega))
    rw [hrun]
    exact hr'
  by_contra hno
  have hno' : ∀ j, (∀ t, min i j ≤ t → t ≤ max i j →
      (qualMask ((editedSpec pc rows).map (·.toCyc)) th).getD t false = true) →
      (rows.map (·.isBurst)).getD j false = false := by
    intro j hconn
    cases hb : (rows.map (·.isBurst)).getD j false with
    | false => rfl
    | true => exact absurd ⟨j, hb, hconn⟩ hno
  have hqi : (qualMask ((editedSpec pc rows).map (·.toCyc)) th).getD i false = true := by
    rw [qualMask_getD]; exact hq'
  -- on the whole component of `i` the old table qualifies as well
  have K : ∀ j, (∀ t, min i j ≤ t → t ≤ max i j →
      (qualMask ((editedSpec pc rows).map (·.toCyc)) th).getD t false = true) →
      (qualMask (rows.map (·.toCyc)) th).getD j false = true := by
    intro j hconn
    have hqj := hconn j (by omega) (by omega)
    rw [qualMask_getD] at hqj ⊢
    cases hs : isStartEdge (rows.map (·.isBurst)) j with
    | true =>
      exfalso
      unfold isStartEdge at hs
      simp only [Bool.and_eq_true, Bool.not_eq_true'] at hs
      have hq1 := hle.2 (j + 1) (by rw [qualMask_getD]; exact (old_label_qual rows th hold (j + 1) hs.2).1)
      have := hno' (j + 1) (fun t h1 h2 => by
        by_cases ht : t = j + 1
        · subst ht; exact hq1
        · exact hconn t (by omega) (by omega))
      rw [hs.2] at this
      cases this
    | false =>
      cases he : isEndEdge (rows.map (·.isBurst)) j with
      | true =>
        exfalso
        unfold isEndEdge at he
        simp only [Bool.and_eq_true, Bool.not_eq_true', decide_eq_true_eq] at he
        obtain ⟨⟨hj0, hb1⟩, -⟩ := he
        have hq1 := hle.2 (j - 1) (by rw [qualMask_getD]; exact (old_label_qual rows th hold (j - 1) hb1).1)
        have := hno' (j - 1) (fun t h1 h2 => by
          by_cases ht : t = j - 1
          · subst ht; exact hq1
          · exact hconn t (by omega) (by omega))
        rw [hb1] at this
        cases this
      | false =>
        rw [← edited_qual_eq pc rows th j ⟨hs, he⟩]
        exact hqj
  have hrun := runLenAt_eq_of_component _ _ i hle hqi K
  have hQi := K i (fun t h1 h2 => by have : t = i := by omega
                                     subst this; exact hqi)
  rw [qualMask_getD] at hQi
  have hold_i := cyclesSpec_complete (rows.map (·.toCyc)) th i hQi (by rw [hrun]; exact hr')
  rw [← hold] at hold_i
  have := hno' i (fun t h1 h2 => by have : t = i := by omega
                                    subst this; exact hqi)
  rw [hold_i] at this
  cases this

end Bycycle
