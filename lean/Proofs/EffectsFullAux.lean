import BycycleModel.EffectsFull
import Proofs.Effects
/-!
# Supporting lemmas for the interprocedural soundness theorem (`Proofs/EffectsFull.lean`)

* the static analysis is monotone in the abstract environment (needed because `execFull` runs a branch in
  continuation style, `a ++ rest`, whereas the analysis joins the two branch environments before `rest`);
* per-activation invariant `InvF obj N s e` (`obj i` = object passed at parameter position `i` of the current
  activation, `N` = fresh counter at activation start) and its post-condition `PostF`;
* `bindParams` establishes the invariant for the callee;
* `full_post`: the simulation, by induction on the step budget.
-/
namespace Bycycle.Eff


/-! ## monotonicity of the analysis in the abstract environment -/

def AEnv.le (e e' : AEnv) : Prop := ∀ x i, i ∈ e.get x → i ∈ e'.get x

theorem AEnv.le_refl (e : AEnv) : e.le e := fun _ _ h => h

theorem AEnv.le_set {e e' : AEnv} (h : e.le e') (x : Var) {v v' : List Nat} (hv : ∀ i ∈ v, i ∈ v') :
    (e.set x v).le (e'.set x v') := by
  intro y i hi
  rw [AEnv.get_set] at hi ⊢
  by_cases hxy : x = y
  · rw [if_pos hxy] at hi ⊢; exact hv i hi
  · rw [if_neg hxy] at hi ⊢; exact h y i hi

theorem AEnv.join_keys (a b : AEnv) : (a.join b).map (·.1) = (a.map (·.1) ++ b.map (·.1)).eraseDups := by
  unfold AEnv.join
  dsimp only
  rw [List.map_map]
  exact List.map_id _

theorem AEnv.mem_join {a b : AEnv} {k : Var} {o : Nat} (h : o ∈ (a.join b).get k) : o ∈ a.get k ∨ o ∈ b.get k := by
  have hk := AEnv.key_of_mem_get _ k o h
  rw [AEnv.join_keys, List.mem_eraseDups] at hk
  rw [AEnv.get_join _ _ _ hk, List.mem_eraseDups] at h
  exact List.mem_append.mp h

theorem AEnv.le_join_left (a b : AEnv) : a.le (a.join b) := fun k o h => AEnv.mem_join_left a b k o h
theorem AEnv.le_join_right (a b : AEnv) : b.le (a.join b) := fun k o h => AEnv.mem_join_right a b k o h

theorem AEnv.join_mono {a a' b b' : AEnv} (ha : a.le a') (hb : b.le b') : (a.join b).le (a'.join b') := by
  intro k o h
  rcases AEnv.mem_join h with h1 | h1
  · exact AEnv.mem_join_left _ _ k o (ha k o h1)
  · exact AEnv.mem_join_right _ _ k o (hb k o h1)

mutual
  theorem analyseStmt_mono (summ : Summ) : (st : Stmt) → (e e' : AEnv) → e.le e' →
      (analyseStmt summ e st).1.le (analyseStmt summ e' st).1 ∧ ∀ i ∈ (analyseStmt summ e st).2, i ∈ (analyseStmt summ e' st).2
    | .fresh x, e, e', h => by
      rw [analyseStmt, analyseStmt]
      exact ⟨AEnv.le_set h x (fun i hi => hi), fun i hi => hi⟩
    | .alias x y, e, e', h => by
      rw [analyseStmt, analyseStmt]
      exact ⟨AEnv.le_set h x (h y), fun i hi => hi⟩
    | .copyIf g x y, e, e', h => by
      rw [analyseStmt, analyseStmt]
      cases g with
      | true => exact ⟨AEnv.le_set h x (fun i hi => hi), fun i hi => hi⟩
      | false => exact ⟨AEnv.le_set h x (h y), fun i hi => hi⟩
    | .write x, e, e', h => by
      rw [analyseStmt, analyseStmt]
      exact ⟨h, h x⟩
    | .call f args, e, e', h => by
      rw [analyseStmt, analyseStmt]
      refine ⟨h, fun i hi => ?_⟩
      obtain ⟨p, hp, hpi⟩ := List.mem_flatMap.mp hi
      refine List.mem_flatMap.mpr ⟨p, hp, ?_⟩
      cases ha : args[p]? with
      | none => rw [ha] at hpi; cases hpi
      | some a => rw [ha] at hpi; exact h a i hpi
    | .ite a b, e, e', h => by
      rw [analyseStmt, analyseStmt]
      dsimp only
      have ha := analyseList_mono summ a e e' h
      have hb := analyseList_mono summ b e e' h
      refine ⟨AEnv.join_mono ha.1 hb.1, fun i hi => ?_⟩
      rcases List.mem_append.mp hi with h1 | h1
      · exact List.mem_append_left _ (ha.2 i h1)
      · exact List.mem_append_right _ (hb.2 i h1)
  theorem analyseList_mono (summ : Summ) : (l : List Stmt) → (e e' : AEnv) → e.le e' →
      (analyseList summ e l).1.le (analyseList summ e' l).1 ∧ ∀ i ∈ (analyseList summ e l).2, i ∈ (analyseList summ e' l).2
    | [], e, e', h => by
      rw [analyseList, analyseList]
      exact ⟨h, fun i hi => hi⟩
    | st :: rest, e, e', h => by
      rw [analyseList, analyseList]
      dsimp only
      have h1 := analyseStmt_mono summ st e e' h
      have h2 := analyseList_mono summ rest _ _ h1.1
      refine ⟨h2.1, fun i hi => ?_⟩
      rcases List.mem_append.mp hi with h3 | h3
      · exact List.mem_append_left _ (h1.2 i h3)
      · exact List.mem_append_right _ (h2.2 i h3)
end

theorem analyseList_append (summ : Summ) (a r : List Stmt) (e : AEnv) :
    analyseList summ e (a ++ r) =
      ((analyseList summ (analyseList summ e a).1 r).1, (analyseList summ e a).2 ++ (analyseList summ (analyseList summ e a).1 r).2) := by
  induction a generalizing e with
  | nil => rw [List.nil_append, analyseList]; rfl
  | cons st t ih =>
    rw [List.cons_append, analyseList, analyseList]
    dsimp only
    rw [ih, List.append_assoc]

/-- the written indices of `a ++ rest` (resp. `b ++ rest`) are among those of `ite a b :: rest`. -/
theorem analyse_ite_left (summ : Summ) (a b rest : List Stmt) (e : AEnv) :
    ∀ i ∈ (analyseList summ e (a ++ rest)).2, i ∈ (analyseList summ e (Stmt.ite a b :: rest)).2 := by
  intro i hi
  rw [analyseList_append] at hi
  rw [analyseList, analyseStmt]
  dsimp only at hi ⊢
  rcases List.mem_append.mp hi with h | h
  · exact List.mem_append_left _ (List.mem_append_left _ h)
  · exact List.mem_append_right _ ((analyseList_mono summ rest _ _ (AEnv.le_join_left _ _)).2 i h)

theorem analyse_ite_right (summ : Summ) (a b rest : List Stmt) (e : AEnv) :
    ∀ i ∈ (analyseList summ e (b ++ rest)).2, i ∈ (analyseList summ e (Stmt.ite a b :: rest)).2 := by
  intro i hi
  rw [analyseList_append] at hi
  rw [analyseList, analyseStmt]
  dsimp only at hi ⊢
  rcases List.mem_append.mp hi with h | h
  · exact List.mem_append_left _ (List.mem_append_right _ h)
  · exact List.mem_append_right _ ((analyseList_mono summ rest _ _ (AEnv.le_join_right _ _)).2 i h)

/-! ## per-activation invariant -/

/-- `obj i` is the object passed at parameter position `i` of the current activation; `N` is the value of
the fresh-object counter when the activation started: every variable holding an object older than the
activation holds an argument object whose position the analysis knows. -/
def InvF (obj : Nat → Option Nat) (N : Nat) (s : St) (e : AEnv) : Prop :=
  (∀ x o, s.get x = some o → o < N → ∃ i ∈ e.get x, obj i = some o) ∧ N ≤ s.next

def PostF (obj : Nat → Option Nat) (N : Nat) (s s' : St) (w : List Nat) : Prop :=
  (∀ o ∈ s'.written, o ∈ s.written ∨ N ≤ o ∨ ∃ i ∈ w, obj i = some o) ∧ s.next ≤ s'.next

theorem PostF.refl (obj : Nat → Option Nat) (N : Nat) (s : St) (w : List Nat) : PostF obj N s s w :=
  ⟨fun _ ho => Or.inl ho, Nat.le_refl _⟩

theorem PostF.trans {obj : Nat → Option Nat} {N : Nat} {s s1 s2 : St} {w1 w2 : List Nat}
    (h1 : PostF obj N s s1 w1) (h2 : PostF obj N s1 s2 w2) : PostF obj N s s2 (w1 ++ w2) := by
  refine ⟨fun o ho => ?_, Nat.le_trans h1.2 h2.2⟩
  rcases h2.1 o ho with h | h | ⟨i, hi, hio⟩
  · rcases h1.1 o h with h' | h' | ⟨i, hi, hio⟩
    · exact Or.inl h'
    · exact Or.inr (Or.inl h')
    · exact Or.inr (Or.inr ⟨i, List.mem_append_left _ hi, hio⟩)
  · exact Or.inr (Or.inl h)
  · exact Or.inr (Or.inr ⟨i, List.mem_append_right _ hi, hio⟩)

theorem PostF.mono {obj : Nat → Option Nat} {N : Nat} {s s' : St} {w w' : List Nat}
    (h : PostF obj N s s' w) (hw : ∀ i ∈ w, i ∈ w') : PostF obj N s s' w' :=
  ⟨fun o ho => (h.1 o ho).imp id (Or.imp id fun ⟨i, hi, hio⟩ => ⟨i, hw i hi, hio⟩), h.2⟩

theorem InvF.freshBind {obj : Nat → Option Nat} {N : Nat} {s : St} {e : AEnv} (h : InvF obj N s e) (x : Var) (v : List Nat) :
    InvF obj N { (s.bind x s.next) with next := s.next + 1 } (e.set x v) := by
  refine ⟨?_, Nat.le_succ_of_le h.2⟩
  intro y o hy ho
  have hy' : (s.bind x s.next).get y = some o := hy
  rw [St.get_bind] at hy'
  rw [AEnv.get_set]
  by_cases hxy : x = y
  · rw [if_pos hxy] at hy'
    injection hy' with hy'
    subst hy'
    exact absurd ho (Nat.not_lt.mpr h.2)
  · rw [if_neg hxy] at hy' ⊢
    exact h.1 y o hy' ho

theorem InvF.aliasBind {obj : Nat → Option Nat} {N : Nat} {s : St} {e : AEnv} (h : InvF obj N s e) (x y : Var) (o : Nat)
    (hy : s.get y = some o) : InvF obj N (s.bind x o) (e.set x (e.get y)) := by
  refine ⟨?_, h.2⟩
  intro z o' hz ho
  rw [St.get_bind] at hz
  rw [AEnv.get_set]
  by_cases hxz : x = z
  · rw [if_pos hxz] at hz ⊢
    injection hz with hz
    subst hz
    exact h.1 y o hy ho
  · rw [if_neg hxz] at hz ⊢
    exact h.1 z o' hz ho

theorem InvF.alias {obj : Nat → Option Nat} {N : Nat} {s : St} {e : AEnv} (h : InvF obj N s e) (x y : Var) :
    InvF obj N (match s.get y with | some o => s.bind x o | none => { (s.bind x s.next) with next := s.next + 1 })
      (e.set x (e.get y)) := by
  cases hy : s.get y with
  | some o => exact h.aliasBind x y o hy
  | none => exact h.freshBind x _

theorem PostF.alias (obj : Nat → Option Nat) (N : Nat) (s : St) (x y : Var) :
    PostF obj N s (match s.get y with | some o => s.bind x o | none => { (s.bind x s.next) with next := s.next + 1 }) [] := by
  cases hy : s.get y with
  | some o => exact ⟨fun _ ho => Or.inl ho, Nat.le_refl _⟩
  | none => exact ⟨fun _ ho => Or.inl ho, Nat.le_succ _⟩

/-! ## parameter binding -/

theorem initAEnv_get (ps : List Var) (hnd : ps.Nodup) (j : Nat) (x : Var) (h : ps[j]? = some x) :
    (initAEnv ps).get x = [j] := by
  have hmem2 : (x, [j]) ∈ initAEnv ps :=
    List.mem_map.mpr ⟨(x, j), List.mem_zipIdx_iff_getElem?.mpr (by simpa using h), rfl⟩
  have hkeys : (initAEnv ps).map (·.1) = ps := by
    unfold initAEnv
    rw [List.map_map]
    have : ((fun x : Var × List Nat => x.1) ∘ fun x : Var × Nat => match x with | (p, i) => (p, [i])) = Prod.fst := by
      funext ⟨a, b⟩; rfl
    rw [this, List.zipIdx_map_fst]
  have := find_of_mem_nodup (initAEnv ps) (by rw [hkeys]; exact hnd) x [j] hmem2
  unfold AEnv.get
  rw [this]
  rfl

def BindQ (s : St) (L : List (Var × Var)) (acc : St) : Prop :=
  (∀ x o, acc.get x = some o → o < s.next → ∃ pa ∈ L, pa.1 = x ∧ s.get pa.2 = some o) ∧
    s.next ≤ acc.next ∧ acc.written = s.written

theorem bind_fold (s : St) (L : List (Var × Var)) : ∀ (l : List (Var × Var)), (∀ pa ∈ l, pa ∈ L) → ∀ acc : St, BindQ s L acc →
    BindQ s L (l.foldl (fun (acc : St) (pa : Var × Var) =>
      match s.get pa.2 with
      | some o => acc.bind pa.1 o
      | none => { (acc.bind pa.1 acc.next) with next := acc.next + 1 }) acc)
  | [], _, acc, h => h
  | pa :: t, hl, acc, h => by
    rw [List.foldl_cons]
    apply bind_fold s L t (fun q hq => hl q (List.mem_cons_of_mem _ hq))
    cases hpa : s.get pa.2 with
    | some o =>
      refine ⟨fun x o' hx ho' => ?_, h.2.1, h.2.2⟩
      have hx' : (acc.bind pa.1 o).get x = some o' := hx
      rw [St.get_bind] at hx'
      by_cases hxy : pa.1 = x
      · rw [if_pos hxy] at hx'
        injection hx' with hx'
        subst hx'
        exact ⟨pa, hl pa (List.mem_cons_self), hxy, hpa⟩
      · rw [if_neg hxy] at hx'
        exact h.1 x o' hx' ho'
    | none =>
      refine ⟨fun x o' hx ho' => ?_, Nat.le_succ_of_le h.2.1, h.2.2⟩
      have hx' : (acc.bind pa.1 acc.next).get x = some o' := hx
      rw [St.get_bind] at hx'
      by_cases hxy : pa.1 = x
      · rw [if_pos hxy] at hx'
        injection hx' with hx'
        subst hx'
        exact absurd ho' (Nat.not_lt.mpr h.2.1)
      · rw [if_neg hxy] at hx'
        exact h.1 x o' hx' ho'

theorem bindParams_spec (s : St) (ps as : List Var) : BindQ s (ps.zip as) (bindParams s ps as) := by
  unfold bindParams
  apply bind_fold s (ps.zip as) (ps.zip as) (fun _ h => h)
  refine ⟨fun x o hx _ => ?_, Nat.le_refl _, rfl⟩
  simp [St.get] at hx

/-- the callee's activation satisfies the invariant with `obj' j` = the object of the `j`-th argument variable. -/
theorem bindParams_inv (s : St) (ps as : List Var) (hnd : ps.Nodup) :
    InvF (fun j => (as[j]?).bind s.get) s.next (bindParams s ps as) (initAEnv ps) := by
  have hq := bindParams_spec s ps as
  refine ⟨fun x o hx ho => ?_, hq.2.1⟩
  obtain ⟨pa, hpa, hpx, hpo⟩ := hq.1 x o hx ho
  obtain ⟨j, hj⟩ := List.mem_iff_getElem?.mp hpa
  rw [List.getElem?_zip_eq_some] at hj
  refine ⟨j, ?_, ?_⟩
  · rw [initAEnv_get ps hnd j x (by rw [hj.1, hpx])]
    exact List.mem_singleton.mpr rfl
  · show (as[j]?).bind s.get = some o
    rw [hj.2]
    exact hpo

/-! ## the simulation -/

theorem lookupFn_spec {prog : List Fn} {f : String} {g : Fn} (h : lookupFn prog f = some g) : g ∈ prog ∧ g.name = f := by
  unfold lookupFn at h
  exact ⟨List.mem_of_find?_eq_some h, by simpa using List.find?_some h⟩

theorem full_post (prog : List Fn) (summ : Summ) (hw : ∀ g ∈ prog, g.respects summ = true ∧ g.params.Nodup) :
    ∀ (fuel : Nat) (obj : Nat → Option Nat) (N : Nat) (s : St) (e : AEnv) (oracle : List Bool) (stmts : List Stmt),
      InvF obj N s e → PostF obj N s (execFull prog summ fuel s oracle stmts).1 (analyseList summ e stmts).2 := by
  intro fuel
  induction fuel with
  | zero =>
    intro obj N s e oracle stmts _
    rw [execFull]
    exact PostF.refl _ _ _ _
  | succ n ih =>
    intro obj N s e oracle stmts h
    cases stmts with
    | nil =>
      rw [execFull]
      exact PostF.refl _ _ _ _
    | cons st rest =>
      cases st with
      | fresh x =>
        rw [execFull, analyseList, analyseStmt]
        exact PostF.trans (s1 := { (s.bind x s.next) with next := s.next + 1 }) (w1 := []) ⟨fun _ ho => Or.inl ho, Nat.le_succ _⟩
          (ih obj N _ _ oracle rest (h.freshBind x []))
      | alias x y =>
        rw [execFull, analyseList, analyseStmt]
        exact PostF.trans (PostF.alias obj N s x y) (ih obj N _ _ oracle rest (h.alias x y))
      | copyIf g x y =>
        rw [execFull, analyseList, analyseStmt]
        cases g with
        | true =>
          exact PostF.trans (s1 := { (s.bind x s.next) with next := s.next + 1 }) (w1 := []) ⟨fun _ ho => Or.inl ho, Nat.le_succ _⟩
            (ih obj N _ _ oracle rest (h.freshBind x []))
        | false => exact PostF.trans (PostF.alias obj N s x y) (ih obj N _ _ oracle rest (h.alias x y))
      | write x =>
        rw [execFull, analyseList, analyseStmt]
        dsimp only
        cases hx : s.get x with
        | none => exact PostF.trans (PostF.refl _ _ _ _) (ih obj N _ _ oracle rest h)
        | some ox =>
          dsimp only
          refine PostF.trans (s1 := { s with written := ox :: s.written }) ⟨fun o ho => ?_, Nat.le_refl _⟩
            (ih obj N _ _ oracle rest ⟨h.1, h.2⟩)
          rcases List.mem_cons.mp ho with h1 | h1
          · subst h1
            by_cases hoN : o < N
            · exact Or.inr (Or.inr (h.1 x o hx hoN))
            · exact Or.inr (Or.inl (Nat.le_of_not_lt hoN))
          · exact Or.inl h1
      | ite a b =>
        match oracle with
        | true :: o' =>
          rw [execFull]
          exact (ih obj N s e o' (a ++ rest) h).mono (analyse_ite_left summ a b rest e)
        | false :: o' =>
          simp only [execFull]
          exact (ih obj N s e o' (b ++ rest) h).mono (analyse_ite_right summ a b rest e)
        | [] =>
          rw [execFull]
          exact (ih obj N s e [] (b ++ rest) h).mono (analyse_ite_right summ a b rest e)
      | call f args =>
        rw [execFull, analyseList, analyseStmt]
        dsimp only
        cases hg : lookupFn prog f with
        | some g =>
          dsimp only
          obtain ⟨hgp, hgn⟩ := lookupFn_spec hg
          obtain ⟨hresp, hnd⟩ := hw g hgp
          have hc := ih (fun j => (args[j]?).bind s.get) s.next (bindParams s g.params args) (initAEnv g.params) oracle g.body
            (bindParams_inv s g.params args hnd)
          have hq := bindParams_spec s g.params args
          refine PostF.trans ⟨fun o ho => ?_, Nat.le_trans hq.2.1 hc.2⟩
            (ih obj N _ e _ rest ⟨h.1, Nat.le_trans h.2 (Nat.le_trans hq.2.1 hc.2)⟩)
          rcases hc.1 o ho with h1 | h1 | ⟨j, hj, hjo⟩
          all_goals try replace hjo : (args[j]?).bind s.get = some o := hjo
          · rw [hq.2.2] at h1; exact Or.inl h1
          · exact Or.inr (Or.inl (Nat.le_trans h.2 h1))
          · by_cases hoN : o < N
            · right; right
              have hj' : j ∈ summ.get f := by
                have hm : j ∈ g.mayWrite summ := by
                  unfold Fn.mayWrite; exact List.mem_eraseDups.mpr hj
                unfold Fn.respects at hresp
                have := List.all_eq_true.mp hresp j hm
                rw [hgn] at this
                simpa using this
              cases ha : args[j]? with
              | none => rw [ha] at hjo; cases hjo
              | some a =>
                rw [ha] at hjo
                obtain ⟨i, hi, hio⟩ := h.1 a o hjo hoN
                refine ⟨i, List.mem_flatMap.mpr ⟨j, hj', ?_⟩, hio⟩
                rw [ha]; exact hi
            · exact Or.inr (Or.inl (Nat.le_of_not_lt hoN))
        | none =>
          dsimp only
          refine PostF.trans
            (s1 := { s with written := ((summ.get f).filterMap fun p => (args[p]?).bind s.get) ++ s.written })
            ⟨fun o ho => ?_, Nat.le_refl _⟩ (ih obj N _ e oracle rest ⟨h.1, h.2⟩)
          rcases List.mem_append.mp ho with h1 | h1
          · by_cases hoN : o < N
            · right; right
              obtain ⟨p, hp, hpo⟩ := List.mem_filterMap.mp h1
              cases ha : args[p]? with
              | none => rw [ha] at hpo; cases hpo
              | some a =>
                rw [ha] at hpo
                obtain ⟨i, hi, hio⟩ := h.1 a o hpo hoN
                refine ⟨i, List.mem_flatMap.mpr ⟨p, hp, ?_⟩, hio⟩
                rw [ha]; exact hi
            · exact Or.inr (Or.inl (Nat.le_of_not_lt hoN))
          · exact Or.inl h1

theorem initInvF (params : List Var) (hnd : params.Nodup) :
    InvF (fun i => if i < params.length then some i else none) params.length (initSt params) (initAEnv params) := by
  have h := initInv params hnd
  refine ⟨fun x o hx ho => ⟨o, h.1 x o hx ho, ?_⟩, h.2⟩
  show (if o < params.length then some o else none) = some o
  rw [if_pos ho]

theorem sound_full_aux (prog : List Fn) (summ : Summ) (hw : ∀ g ∈ prog, g.respects summ = true ∧ g.params.Nodup)
    (f : Fn) (hf : f ∈ prog) (fuel : Nat) (oracle : List Bool) (o : Nat) (ho : o ∈ f.runFull prog summ fuel oracle) :
    o ∈ summ.get f.name := by
  unfold Fn.runFull at ho
  rw [List.mem_filter] at ho
  have hon : o < f.params.length := by simpa using ho.2
  obtain ⟨hresp, hnd⟩ := hw f hf
  have hp := full_post prog summ hw fuel _ _ _ _ oracle f.body (initInvF f.params hnd)
  have hm : o ∈ f.mayWrite summ := by
    unfold Fn.mayWrite
    rw [List.mem_eraseDups]
    rcases hp.1 o ho.1 with h | h | ⟨i, hi, hio⟩
    · cases h
    · exact absurd hon (Nat.not_lt.mpr h)
    · have hio' : (if i < f.params.length then some i else none) = some o := hio
      by_cases hi' : i < f.params.length
      · rw [if_pos hi'] at hio'
        injection hio' with hio'
        subst hio'
        exact hi
      · rw [if_neg hi'] at hio'; cases hio'
  unfold Fn.respects at hresp
  have := List.all_eq_true.mp hresp o hm
  simpa using this

end Bycycle.Eff
