import BycycleModel.Cyclepoints
import Proofs.Zerox
import Proofs.Extrema
/-!
# Helper lemmas for C01 (the cycle table is an ordered, gap-free segmentation)

Organisation: (1) the degenerate case (a missing kind of crossing forces an exception);
(2) row assembly from the generated `rowSlices` and well-formedness of the assembled rows (`CpGood`);
(3) direct analysis of `findFlankMidpoints`/`findZerox` (each midpoint lies between its two extrema);
(4) `toNatList`, the chain `p₀ < t₀ < p₁ < …` obtained from `altFrom`; (5) the glue and the four theorems.
-/
namespace Bycycle

/-! ## (1) the degenerate case -/


theorem cp_extremaLoop_zero (sig : List Rat) (pick : List Rat → Option Nat) (cmp : Cmp)
    (starts others : List Nat) : extremaLoop sig pick cmp starts 0 others = .ok [] := by
  simp [extremaLoop, extremaLoop.go]

theorem cp_len_le_one_of_other_nil_d (b : List Bool) (h : risingX b = []) : (decayingX b).length ≤ 1 := by
  match hd : decayingX b with
  | [] => simp
  | [_] => simp
  | d :: d' :: rest =>
    have hs := decayingX_sorted b
    rw [hd] at hs
    have hlt : d < d' := by
      rw [List.pairwise_cons] at hs
      exact hs.1 d' (by simp)
    obtain ⟨r, hr, _⟩ := crossings_alternate_dr b d d' (by simp [hd]) (by simp [hd]) hlt
    simp [h] at hr

theorem cp_len_le_one_of_other_nil_r (b : List Bool) (h : decayingX b = []) : (risingX b).length ≤ 1 := by
  match hd : risingX b with
  | [] => simp
  | [_] => simp
  | d :: d' :: rest =>
    have hs := risingX_sorted b
    rw [hd] at hs
    have hlt : d < d' := by
      rw [List.pairwise_cons] at hs
      exact hs.1 d' (by simp)
    obtain ⟨r, hr, _⟩ := crossings_alternate_rd b d d' (by simp [hd]) (by simp [hd]) hlt
    simp [h] at hr

theorem cp_riseXs_len (b : List Bool) (h : risingX b = [] ∨ decayingX b = []) : (riseXs b).length = 1 := by
  unfold riseXs
  show (if (risingX b).isEmpty then [b.length / 2] else risingX b).length = 1
  rcases h with h | h
  · simp [h]
  · have := cp_len_le_one_of_other_nil_r b h
    split
    · simp
    · rename_i hne
      have : (risingX b).length ≠ 0 := by
        intro h0; exact hne (by simpa using List.eq_nil_of_length_eq_zero h0)
      omega

theorem cp_decayXs_len (b : List Bool) (h : risingX b = [] ∨ decayingX b = []) : (decayXs b).length = 1 := by
  unfold decayXs
  show (if (decayingX b).isEmpty then [b.length / 2] else decayingX b).length = 1
  rcases h with h | h
  · have := cp_len_le_one_of_other_nil_d b h
    split
    · simp
    · rename_i hne
      have : (decayingX b).length ≠ 0 := by
        intro h0; exact hne (by simpa using List.eq_nil_of_length_eq_zero h0)
      omega
  · simp [h]

theorem cp_rawExtrema_degenerate (sig : List Rat) (b : List Bool) (h : risingX b = [] ∨ decayingX b = [])
    (pk tr : List Nat) (hr : rawExtrema sig b = .ok (pk, tr)) : pk = [] ∨ tr = [] := by
  unfold rawExtrema at hr
  simp only [cp_riseXs_len b h, cp_decayXs_len b h, Nat.sub_self] at hr
  split at hr
  · simp only [cp_extremaLoop_zero] at hr
    left
    cases h2 : extremaLoop sig argminFirst Slots.scanRiseCmp (decayXs b) 1 (riseXs b) with
    | error e => rw [h2] at hr; cases hr
    | ok v => rw [h2] at hr; cases hr; rfl
  · simp only [cp_extremaLoop_zero] at hr
    right
    cases h2 : extremaLoop sig argmaxFirst Slots.scanDecayCmp (riseXs b) 1 (decayXs b) with
    | error e => rw [h2] at hr; cases hr
    | ok v => rw [h2] at hr; cases hr; rfl

theorem cp_unpadFilter_nil (lo hi : Cmp) (pad n : Nat) (bd : Int) : unpadFilter lo hi [] pad n bd = [] := rfl

theorem cp_trimFirst_peak_nil (P T : List Int) (h : P = [] ∨ T = []) : ∃ e, trimFirst .peak P T = .error e := by
  rcases h with h | h
  · subst h; exact ⟨.indexError, rfl⟩
  · subst h
    cases P with
    | nil => exact ⟨.indexError, rfl⟩
    | cons p ps => exact ⟨.indexError, rfl⟩

theorem cp_findExtrema_def (sig : List Rat) (pad : Nat) (b : List Bool) (bd : Int) (fe : FirstExt) :
    findExtrema sig pad b bd fe =
      (rawExtrema (List.replicate pad (0 : Rat) ++ sig ++ List.replicate pad 0) b >>= fun x =>
        trimFirst fe (unpadFilter Slots.boundaryLoCmp Slots.boundaryHiCmp x.1 pad sig.length bd)
          (unpadFilter Slots.boundaryLoCmpTroughs Slots.boundaryHiCmpTroughs x.2 pad sig.length bd)) := rfl

theorem cp_findExtrema_degenerate (sig : List Rat) (pad : Nat) (b : List Bool) (bd : Int)
    (h : risingX b = [] ∨ decayingX b = []) : ∃ e, findExtrema sig pad b bd .peak = .error e := by
  rw [cp_findExtrema_def]
  cases hr : rawExtrema (List.replicate pad (0 : Rat) ++ sig ++ List.replicate pad 0) b with
  | error e => exact ⟨e, rfl⟩
  | ok v =>
    obtain ⟨pk, tr⟩ := v
    have := cp_rawExtrema_degenerate _ b h pk tr hr
    show ∃ e, trimFirst .peak _ _ = .error e
    apply cp_trimFirst_peak_nil
    rcases this with h | h
    · left; subst h; rfl
    · right; subst h; rfl

/-- without a zero-crossing of each direction there is no table (the function raises). -/
theorem computeCyclepoints_degenerate (sig : List Rat) (pad : Nat) (b : List Bool) (bd : Int)
    (h : risingX b = [] ∨ decayingX b = []) : ∃ e, computeCyclepoints sig pad b bd = .error e := by
  obtain ⟨e, he⟩ := cp_findExtrema_degenerate sig pad b bd h
  exact ⟨e, by unfold computeCyclepoints; rw [he]; rfl⟩


/-! ## (2) row assembly -/

theorem cp_sampleColumn_vals (p t r d : List Int) :
    sampleColumn "sample_peak" p t r d = applySlice p 1 0 ∧
    sampleColumn "sample_last_zerox_decay" p t r d = applySlice d 0 1 ∧
    sampleColumn "sample_zerox_decay" p t r d = applySlice d 1 0 ∧
    sampleColumn "sample_zerox_rise" p t r d = applySlice r 0 0 ∧
    sampleColumn "sample_last_trough" p t r d = applySlice t 0 1 ∧
    sampleColumn "sample_next_trough" p t r d = applySlice t 1 0 := by
  refine ⟨?_, ?_, ?_, ?_, ?_, ?_⟩ <;> rfl

theorem cp_applySlice_length (a : List Int) (f e : Nat) : (applySlice a f e).length = a.length - f - e := by
  simp [applySlice]

theorem cp_applySlice_getD (a : List Int) (f e i : Nat) (hi : i < a.length - f - e) :
    (applySlice a f e).getD i 0 = a.getD (i + f) 0 := by
  simp only [applySlice, List.getD_eq_getElem?_getD, List.getElem?_take, List.getElem?_drop, hi, if_true]
  rw [Nat.add_comm]

/-- row `i` of the table in terms of the four source arrays. -/
def cpRowAt (P T R D : List Int) (i : Nat) : SampleRow :=
  ⟨P.getD (i + 1) 0, D.getD i 0, D.getD (i + 1) 0, R.getD i 0, T.getD i 0, T.getD (i + 1) 0⟩

theorem cp_assembleRows_eq (P T R D : List Int) (m : Nat) (hP : P.length = m) (hT : T.length = m)
    (hD : D.length = m) (hR : R.length = m - 1) :
    assembleRows P T R D = .ok ((List.range (m - 1)).map (cpRowAt P T R D)) := by
  obtain ⟨h1, h2, h3, h4, h5, h6⟩ := cp_sampleColumn_vals P T R D
  unfold assembleRows
  simp only [h1, h2, h3, h4, h5, h6, cp_applySlice_length, hP, hT, hD, hR]
  simp only [Nat.sub_zero]
  split
  case isFalse hc => exact (hc (by simp)).elim
  congr 1
  apply List.map_congr_left
  intro i hi
  have hi := List.mem_range.mp hi
  rw [cp_applySlice_getD _ _ _ _ (by omega), cp_applySlice_getD _ _ _ _ (by omega), cp_applySlice_getD _ _ _ _ (by omega),
    cp_applySlice_getD _ _ _ _ (by omega), cp_applySlice_getD _ _ _ _ (by omega), cp_applySlice_getD _ _ _ _ (by omega)]
  rfl

theorem cp_tiles_cpRowAt (P T R D : List Int) (s k : Nat) : tiles ((List.range' s k).map (cpRowAt P T R D)) := by
  induction k generalizing s with
  | zero => simp [tiles]
  | succ k ih =>
    cases k with
    | zero => simp [tiles]
    | succ k =>
      have := ih (s + 1)
      rw [List.range'_succ, List.range'_succ, List.map_cons, List.map_cons, tiles]
      rw [List.range'_succ, List.map_cons] at this
      exact ⟨rfl, rfl, this⟩

/-- the facts about the four source arrays from which well-formedness follows. -/
structure CpGood (P T R D : List Int) (n : Nat) (bd : Int) (m : Nat) : Prop where
  lenP : P.length = m
  lenT : T.length = m
  lenD : D.length = m
  lenR : R.length = m - 1
  pt : ∀ i, i < m → P.getD i 0 < T.getD i 0
  tp : ∀ i, i + 1 < m → T.getD i 0 < P.getD (i + 1) 0
  dec : ∀ i, i < m → P.getD i 0 ≤ D.getD i 0 ∧ D.getD i 0 ≤ T.getD i 0
  ris : ∀ i, i + 1 < m → T.getD i 0 ≤ R.getD i 0 ∧ R.getD i 0 ≤ P.getD (i + 1) 0
  bnd : ∀ i, i < m → bd < T.getD i 0 ∧ T.getD i 0 < (n : Int) - bd
  nn : ∀ i, i < m → 0 ≤ P.getD i 0

theorem CpGood.wellFormed {P T R D : List Int} {n : Nat} {bd : Int} {m : Nat} (g : CpGood P T R D n bd m) :
    wellFormed ((List.range (m - 1)).map (cpRowAt P T R D)) n bd := by
  refine ⟨?_, ?_⟩
  · intro r hr
    obtain ⟨i, hi, rfl⟩ := List.mem_map.mp hr
    have hi := List.mem_range.mp hi
    have h1 := g.pt i (by omega); have h2 := g.pt (i + 1) (by omega); have h3 := g.tp i (by omega)
    have h4 := g.dec i (by omega); have h5 := g.dec (i + 1) (by omega); have h6 := g.ris i (by omega)
    have h7 := g.bnd i (by omega); have h8 := g.bnd (i + 1) (by omega); have h9 := g.nn i (by omega)
    simp only [SampleRow.ordered, cpRowAt]
    omega
  · rw [List.range_eq_range']
    exact cp_tiles_cpRowAt P T R D 0 (m - 1)


/-! ## (3) flank midpoints lie between their extrema -/

theorem cp_mem_crossingsAux_lt (pos : List Bool) (i0 x : Nat) (h : x ∈ crossingsAux pos i0) :
    x + 1 < i0 + pos.length := by
  induction pos generalizing i0 with
  | nil => simp [crossingsAux] at h
  | cons a l ih =>
    cases l with
    | nil => simp [crossingsAux] at h
    | cons c rest =>
      unfold crossingsAux at h
      have ih' := ih (i0 + 1)
      simp only [List.length_cons] at ih' ⊢
      split at h
      · rcases List.mem_cons.mp h with h | h
        · omega
        · have := ih' h; omega
      · have := ih' h; omega

theorem cp_getD_lt (xs : List Nat) (n k : Nat) (hn : 0 < n) (h : ∀ x ∈ xs, x < n) : xs.getD k 0 < n := by
  rw [List.getD_eq_getElem?_getD]
  cases hk : xs[k]? with
  | none => simpa using hn
  | some v => exact h v (List.mem_of_getElem? hk)

theorem cp_medianFloor_lt (xs : List Nat) (n : Nat) (hn : 0 < n) (h : ∀ x ∈ xs, x < n) : medianFloor xs < n := by
  unfold medianFloor
  have h1 := cp_getD_lt xs n ((xs.length - 1) / 2) hn h
  have h2 := cp_getD_lt xs n (xs.length / 2) hn h
  simp only
  omega

theorem cp_flankMid_lt (seg : List Rat) (f : Flank) (hne : seg ≠ []) : flankMid seg f < seg.length := by
  have hpos : 0 < seg.length := List.length_pos_iff.mpr hne
  have hhalf : seg.length / 2 < seg.length := by omega
  have key : ∀ x ∈ findFlankZerox seg f ((seg.headD 0 + seg.getLastD 0) / 2), x < seg.length := by
    intro x hx
    unfold findFlankZerox at hx
    simp only at hx
    split at hx
    · simp at hx; omega
    · have := cp_mem_crossingsAux_lt _ _ _ hx
      simp at this; omega
  have hm := cp_medianFloor_lt _ _ hpos key
  unfold flankMid
  simp only
  repeat' split
  all_goals first
    | exact hhalf
    | exact hm

theorem cp_mapM_ok {α β : Type} (f : α → Except Err β) (l : List α) (v : List β) (h : l.mapM f = .ok v) :
    v.length = l.length ∧ ∀ i (hi : i < l.length), ∃ y, v[i]? = some y ∧ f l[i] = .ok y := by
  induction l generalizing v with
  | nil =>
    simp only [List.mapM_nil] at h
    cases h
    simp
  | cons a l ih =>
    rw [List.mapM_cons] at h
    cases hfa : f a with
    | error e => rw [hfa] at h; cases h
    | ok y =>
      cases hl : l.mapM f with
      | error e => rw [hfa, hl] at h; cases h
      | ok ys =>
        rw [hfa, hl] at h
        cases h
        obtain ⟨h1, h2⟩ := ih ys hl
        refine ⟨by simp [h1], ?_⟩
        intro i hi
        cases i with
        | zero => exact ⟨y, by simp, by simpa using hfa⟩
        | succ i =>
          obtain ⟨z, hz1, hz2⟩ := h2 i (by simpa using hi)
          exact ⟨z, by simpa using hz1, by simpa using hz2⟩

theorem cp_mapM_succeeds {α β : Type} (f : α → Except Err β) (l : List α) (h : ∀ a ∈ l, ∃ y, f a = .ok y) :
    ∃ v, l.mapM f = .ok v := by
  induction l with
  | nil => exact ⟨[], rfl⟩
  | cons a l ih =>
    obtain ⟨y, hy⟩ := h a (by simp)
    obtain ⟨ys, hys⟩ := ih (fun a ha => h a (by simp [ha]))
    exact ⟨y :: ys, by rw [List.mapM_cons, hy, hys]; rfl⟩

/-- one iteration of the loop of `_find_flank_midpoints`. -/
def cpFfmStep (sig : List Rat) (f : Flank) (starts ends : List Nat) (bias : Nat) (i : Nat) : Except Err Nat := do
  let s ← idx? starts i
  let e ← idx? ends (i + bias)
  let seg := slice sig s (e + Slots.flankWindowPlus)
  if seg.isEmpty then .error .indexError else .ok (s + flankMid seg f)

theorem cp_ffm_def (sig : List Rat) (f : Flank) (k : Nat) (starts ends : List Nat) (bias : Nat) :
    findFlankMidpoints sig f k starts ends bias = (List.range k).mapM (cpFfmStep sig f starts ends bias) := rfl

theorem cp_slice_length (sig : List Rat) (a b : Nat) : (slice sig a b).length = min b sig.length - a := by
  simp [slice]

theorem cp_ffmStep_ok (sig : List Rat) (f : Flank) (starts ends : List Nat) (bias i y : Nat)
    (h : cpFfmStep sig f starts ends bias i = .ok y) :
    starts.getD i 0 ≤ y ∧ y ≤ ends.getD (i + bias) 0 := by
  unfold cpFfmStep idx? at h
  cases hs : starts[i]? with
  | none => rw [hs] at h; cases h
  | some s =>
    cases he : ends[i + bias]? with
    | none => rw [hs, he] at h; cases h
    | some e =>
      rw [hs, he] at h
      simp only [List.getD_eq_getElem?_getD, hs, he, Option.getD_some]
      change (if (slice sig s (e + Slots.flankWindowPlus)).isEmpty = true then Except.error Err.indexError
        else Except.ok (s + flankMid (slice sig s (e + Slots.flankWindowPlus)) f)) = Except.ok y at h
      split at h
      · cases h
      · rename_i hne
        cases h
        have hne' : slice sig s (e + Slots.flankWindowPlus) ≠ [] := by simpa using hne
        have h1 := cp_flankMid_lt _ f hne'
        rw [cp_slice_length] at h1
        simp only [Slots.flankWindowPlus] at h1 ⊢
        omega

theorem cp_ffmStep_succeeds (sig : List Rat) (f : Flank) (starts ends : List Nat) (bias i : Nat)
    (h1 : i < starts.length) (h2 : i + bias < ends.length) (h3 : starts.getD i 0 < sig.length)
    (h4 : starts.getD i 0 ≤ ends.getD (i + bias) 0) :
    ∃ y, cpFfmStep sig f starts ends bias i = .ok y := by
  unfold cpFfmStep idx?
  have hs : starts[i]? = some starts[i] := List.getElem?_eq_getElem h1
  have he : ends[i + bias]? = some ends[i + bias] := List.getElem?_eq_getElem h2
  simp only [List.getD_eq_getElem?_getD, hs, he, Option.getD_some] at h3 h4
  rw [hs, he]
  change ∃ y, (if (slice sig starts[i] (ends[i + bias] + Slots.flankWindowPlus)).isEmpty = true then Except.error Err.indexError
        else Except.ok (starts[i] + flankMid (slice sig starts[i] (ends[i + bias] + Slots.flankWindowPlus)) f)) = Except.ok y
  have hl := cp_slice_length sig starts[i] (ends[i + bias] + Slots.flankWindowPlus)
  have hne : (slice sig starts[i] (ends[i + bias] + Slots.flankWindowPlus)).isEmpty = false := by
    cases hx : slice sig starts[i] (ends[i + bias] + Slots.flankWindowPlus) with
    | nil => rw [hx] at hl; simp [Slots.flankWindowPlus] at hl; omega
    | cons _ _ => rfl
  rw [hne]
  exact ⟨_, rfl⟩

theorem cp_getD_of_getElem? {α : Type} (l : List α) (i : Nat) (d y : α) (h : l[i]? = some y) : l.getD i d = y := by
  simp [List.getD_eq_getElem?_getD, h]

theorem cp_ffm_ok (sig : List Rat) (f : Flank) (k : Nat) (starts ends : List Nat) (bias : Nat) (l : List Nat)
    (h : findFlankMidpoints sig f k starts ends bias = .ok l) :
    l.length = k ∧ ∀ i, i < k → starts.getD i 0 ≤ l.getD i 0 ∧ l.getD i 0 ≤ ends.getD (i + bias) 0 := by
  rw [cp_ffm_def] at h
  obtain ⟨h1, h2⟩ := cp_mapM_ok _ _ _ h
  refine ⟨by simpa using h1, ?_⟩
  intro i hi
  obtain ⟨y, hy1, hy2⟩ := h2 i (by simpa using hi)
  rw [List.getElem_range] at hy2
  rw [cp_getD_of_getElem? l i 0 y hy1]
  exact cp_ffmStep_ok _ _ _ _ _ _ _ hy2

theorem cp_ffm_succeeds (sig : List Rat) (f : Flank) (k : Nat) (starts ends : List Nat) (bias : Nat)
    (h : ∀ i, i < k → i < starts.length ∧ i + bias < ends.length ∧ starts.getD i 0 < sig.length ∧
      starts.getD i 0 ≤ ends.getD (i + bias) 0) :
    ∃ l, findFlankMidpoints sig f k starts ends bias = .ok l := by
  rw [cp_ffm_def]
  apply cp_mapM_succeeds
  intro i hi
  obtain ⟨h1, h2, h3, h4⟩ := h i (List.mem_range.mp hi)
  exact cp_ffmStep_succeeds _ _ _ _ _ _ h1 h2 h3 h4


/-! ## `find_zerox` on a peak-first alternating pair of lists -/

theorem cp_findZerox_cons (sig : List Rat) (p0 t0 : Nat) (ps ts : List Nat) (h : p0 < t0) :
    findZerox sig (p0 :: ps) (t0 :: ts) =
      (findFlankMidpoints sig .rise ps.length (t0 :: ts) (p0 :: ps) 1 >>= fun rises =>
        findFlankMidpoints sig .decay (ts.length + 1) (p0 :: ps) (t0 :: ts) 0 >>= fun decays =>
          Except.ok (rises, decays)) := by
  unfold findZerox
  have e1 : idx? (p0 :: ps) 0 = .ok p0 := rfl
  have e2 : idx? (t0 :: ts) 0 = .ok t0 := rfl
  rw [e1, e2]
  have okb : ∀ {α β : Type} (a : α) (g : α → Except Err β), (Except.ok a >>= g) = g a := fun _ _ => rfl
  simp only [okb, h, decide_true, if_true, List.length_cons, Nat.add_sub_cancel, Nat.sub_zero]

theorem cp_findZerox_ok (sig : List Rat) (pk tr R D : List Nat) (m : Nat) (hp : pk.length = m) (ht : tr.length = m)
    (h0 : 0 < m → pk.getD 0 0 < tr.getD 0 0) (h : findZerox sig pk tr = .ok (R, D)) :
    R.length = m - 1 ∧ D.length = m ∧
    (∀ i, i + 1 < m → tr.getD i 0 ≤ R.getD i 0 ∧ R.getD i 0 ≤ pk.getD (i + 1) 0) ∧
    (∀ i, i < m → pk.getD i 0 ≤ D.getD i 0 ∧ D.getD i 0 ≤ tr.getD i 0) := by
  cases pk with
  | nil => cases h
  | cons p0 ps =>
    cases tr with
    | nil => cases h
    | cons t0 ts =>
      have hlt : p0 < t0 := by simpa using h0 (by simp at hp; omega)
      rw [cp_findZerox_cons sig p0 t0 ps ts hlt] at h
      cases hR : findFlankMidpoints sig .rise ps.length (t0 :: ts) (p0 :: ps) 1 with
      | error e => rw [hR] at h; cases h
      | ok R' =>
        cases hD : findFlankMidpoints sig .decay (ts.length + 1) (p0 :: ps) (t0 :: ts) 0 with
        | error e => rw [hR, hD] at h; cases h
        | ok D' =>
          rw [hR, hD] at h
          cases h
          obtain ⟨r1, r2⟩ := cp_ffm_ok _ _ _ _ _ _ _ hR
          obtain ⟨d1, d2⟩ := cp_ffm_ok _ _ _ _ _ _ _ hD
          simp only [List.length_cons] at hp ht
          refine ⟨by omega, by omega, ?_, ?_⟩
          · intro i hi; exact r2 i (by omega)
          · intro i hi; exact d2 i (by omega)

theorem cp_findZerox_succeeds (sig : List Rat) (pk tr : List Nat) (m : Nat) (hm : 0 < m)
    (hp : pk.length = m) (ht : tr.length = m)
    (c1 : ∀ i, i < m → pk.getD i 0 < tr.getD i 0)
    (c2 : ∀ i, i + 1 < m → tr.getD i 0 < pk.getD (i + 1) 0)
    (c3 : ∀ i, i < m → tr.getD i 0 < sig.length) :
    ∃ R D, findZerox sig pk tr = .ok (R, D) := by
  cases pk with
  | nil => simp at hp; omega
  | cons p0 ps =>
    cases tr with
    | nil => simp at ht; omega
    | cons t0 ts =>
      have hlt : p0 < t0 := by simpa using c1 0 hm
      simp only [List.length_cons] at hp ht
      rw [cp_findZerox_cons sig p0 t0 ps ts hlt]
      obtain ⟨R, hR⟩ := cp_ffm_succeeds sig .rise ps.length (t0 :: ts) (p0 :: ps) 1 (by
        intro i hi
        have := c2 i (by omega); have := c3 i (by omega)
        refine ⟨by simp only [List.length_cons]; omega, by simp only [List.length_cons]; omega, by omega, by omega⟩)
      obtain ⟨D, hD⟩ := cp_ffm_succeeds sig .decay (ts.length + 1) (p0 :: ps) (t0 :: ts) 0 (by
        intro i hi
        have := c1 i (by omega); have := c3 i (by omega)
        simp only [Nat.add_zero]
        refine ⟨by simp only [List.length_cons]; omega, by simp only [List.length_cons]; omega, by omega, by omega⟩)
      exact ⟨R, D, by rw [hR, hD]; rfl⟩

/-! ## `toNatList` -/

theorem cp_toNatList_ok (l : List Int) (v : List Nat) (h : toNatList l = .ok v) : l = v.map Int.ofNat := by
  induction l generalizing v with
  | nil =>
    unfold toNatList at h
    simp only [List.mapM_nil] at h
    cases h; rfl
  | cons x xs ih =>
    unfold toNatList at h
    rw [List.mapM_cons] at h
    by_cases hx : x < 0
    · simp only [hx, if_true] at h; cases h
    · simp only [hx, if_false] at h
      cases hl : toNatList xs with
      | error e => unfold toNatList at hl; rw [hl] at h; cases h
      | ok ys =>
        have := ih ys hl
        unfold toNatList at hl; rw [hl] at h
        cases h
        simp only [List.map_cons, ← this]
        congr 1
        show x = ((x.toNat : Nat) : Int)
        omega

theorem cp_toNatList_succeeds (l : List Int) (h : ∀ x ∈ l, 0 ≤ x) : ∃ v, toNatList l = .ok v := by
  unfold toNatList
  apply cp_mapM_succeeds
  intro a ha
  have := h a ha
  exact ⟨a.toNat, by rw [if_neg (by omega)]⟩

theorem cp_getD_map_ofNat (l : List Nat) (i : Nat) : (l.map Int.ofNat).getD i 0 = ((l.getD i 0 : Nat) : Int) := by
  simp only [List.getD_eq_getElem?_getD, List.getElem?_map]
  cases l[i]? <;> rfl

/-! ## the chain `p₀ < t₀ < p₁ < t₁ < …` -/

theorem cp_altFrom_pair (lo : Option Int) (p t : Int) (ps ts : List Int) :
    altFrom true lo (p :: ps) (t :: ts) =
      ((match lo with | some l => decide (l < p) | none => true) && (decide (p < t) && altFrom true (some t) ps ts)) := by
  cases lo <;> simp [altFrom]

theorem cp_chain (P T : List Int) (lo : Option Int) (hl : P.length = T.length) (h : altFrom true lo P T = true) :
    (∀ i, i < P.length → P.getD i 0 < T.getD i 0) ∧
    (∀ i, i + 1 < P.length → T.getD i 0 < P.getD (i + 1) 0) ∧
    (∀ l, lo = some l → 0 < P.length → l < P.getD 0 0) := by
  induction P generalizing T lo with
  | nil => simp
  | cons p ps ih =>
    cases T with
    | nil => simp at hl
    | cons t ts =>
      rw [cp_altFrom_pair] at h
      simp only [Bool.and_eq_true, decide_eq_true_eq] at h
      obtain ⟨h1, h2, h3⟩ := h
      obtain ⟨a, b, c⟩ := ih ts (some t) (by simpa using hl) h3
      refine ⟨?_, ?_, ?_⟩
      · intro i hi
        cases i with
        | zero => simpa using h2
        | succ j => simpa using a j (by simpa using hi)
      · intro i hi
        cases i with
        | zero => simpa using c t rfl (by simpa using hi)
        | succ j => simpa using b j (by simpa using hi)
      · intro l hlo _
        subst hlo
        simpa using h1

theorem cp_chain_nat (pk tr : List Nat) (hl : pk.length = tr.length)
    (h : altFrom true none (pk.map Int.ofNat) (tr.map Int.ofNat) = true) :
    (∀ i, i < pk.length → pk.getD i 0 < tr.getD i 0) ∧
    (∀ i, i + 1 < pk.length → tr.getD i 0 < pk.getD (i + 1) 0) := by
  obtain ⟨c1, c2, _⟩ := cp_chain _ _ none (by simpa using hl) h
  simp only [List.length_map, cp_getD_map_ofNat] at c1 c2
  exact ⟨fun i hi => by have := c1 i hi; omega, fun i hi => by have := c2 i hi; omega⟩

/-! ## gluing the stages of `compute_cyclepoints` -/

theorem cp_okb {α β : Type} (a : α) (g : α → Except Err β) : (Except.ok a >>= g) = g a := rfl

theorem cp_compute_eq (sig : List Rat) (pad : Nat) (b : List Bool) (bd : Int) (P T : List Int) (pk tr R D : List Nat)
    (h1 : findExtrema sig pad b bd .peak = .ok (P, T)) (h2 : toNatList P = .ok pk) (h3 : toNatList T = .ok tr)
    (h4 : findZerox sig pk tr = .ok (R, D)) :
    computeCyclepoints sig pad b bd = assembleRows P T (R.map Int.ofNat) (D.map Int.ofNat) := by
  unfold computeCyclepoints
  simp only [h1, cp_okb, h2, h3, h4]

theorem cp_extract (sig : List Rat) (pad : Nat) (b : List Bool) (bd : Int) (rows : List SampleRow)
    (h : computeCyclepoints sig pad b bd = .ok rows) :
    ∃ P T pk tr R D, findExtrema sig pad b bd .peak = .ok (P, T) ∧ toNatList P = .ok pk ∧ toNatList T = .ok tr ∧
      findZerox sig pk tr = .ok (R, D) ∧ assembleRows P T (R.map Int.ofNat) (D.map Int.ofNat) = .ok rows := by
  cases h1 : findExtrema sig pad b bd .peak with
  | error e => unfold computeCyclepoints at h; rw [h1] at h; cases h
  | ok v =>
    obtain ⟨P, T⟩ := v
    cases h2 : toNatList P with
    | error e => unfold computeCyclepoints at h; simp only [h1, cp_okb, h2] at h; cases h
    | ok pk =>
      cases h3 : toNatList T with
      | error e => unfold computeCyclepoints at h; simp only [h1, cp_okb, h2, h3] at h; cases h
      | ok tr =>
        cases h4 : findZerox sig pk tr with
        | error e => unfold computeCyclepoints at h; simp only [h1, cp_okb, h2, h3, h4] at h; cases h
        | ok w =>
          obtain ⟨R, D⟩ := w
          rw [cp_compute_eq sig pad b bd P T pk tr R D h1 h2 h3 h4] at h
          exact ⟨P, T, pk, tr, R, D, by first | rfl | exact h1, by first | rfl | exact h2, by first | rfl | exact h3, h4, h⟩

theorem cp_spec_props (sig : List Rat) (pad : Nat) (b : List Bool) (bd : Int) (P T : List Int)
    (hlen : b.length = sig.length + 2 * pad)
    (hs : findExtremaSpec sig pad b bd .peak = .ok (P, T)) :
    altFrom true none P T = true ∧ P.length = T.length ∧
    (∀ x ∈ P, bd < x ∧ x < (sig.length : Int) - bd) ∧ (∀ x ∈ T, bd < x ∧ x < (sig.length : Int) - bd) := by
  have hl : (List.replicate pad (0 : Rat) ++ sig ++ List.replicate pad 0).length = b.length := by
    simp; omega
  have sa := boundary_alternating _ _ pad sig.length bd (spec_alternating _ b hl)
  obtain ⟨h1, h2, h3, h4⟩ := trimSpec_peak_props _ _ P T sa hs
  refine ⟨h1, h2, ?_, ?_⟩
  · intro x hx
    obtain ⟨y, _, _, hy⟩ := (mem_boundarySpec _ _ _ _ _).mp (h3.subset hx)
    exact hy
  · intro x hx
    obtain ⟨y, _, _, hy⟩ := (mem_boundarySpec _ _ _ _ _).mp (h4.subset hx)
    exact hy

theorem cp_getD_mem {α : Type} (l : List α) (i : Nat) (d : α) (hi : i < l.length) : l.getD i d ∈ l := by
  rw [List.getD_eq_getElem?_getD, List.getElem?_eq_getElem hi]; exact List.getElem_mem _

theorem cp_good (sig : List Rat) (bd : Int) (pk tr R D : List Nat)
    (alt : altFrom true none (pk.map Int.ofNat) (tr.map Int.ofNat) = true) (hl : pk.length = tr.length)
    (hb : ∀ x ∈ tr.map Int.ofNat, bd < x ∧ x < (sig.length : Int) - bd)
    (hz : findZerox sig pk tr = .ok (R, D)) :
    CpGood (pk.map Int.ofNat) (tr.map Int.ofNat) (R.map Int.ofNat) (D.map Int.ofNat) sig.length bd pk.length := by
  obtain ⟨c1, c2⟩ := cp_chain_nat pk tr hl alt
  obtain ⟨z1, z2, z3, z4⟩ := cp_findZerox_ok sig pk tr R D pk.length rfl hl.symm (fun h => c1 0 h) hz
  refine ⟨by simp, by simp [hl], by simp [z2], by simp [z1], ?_, ?_, ?_, ?_, ?_, ?_⟩
  · intro i hi; have := c1 i hi; simp only [cp_getD_map_ofNat]; omega
  · intro i hi; have := c2 i hi; simp only [cp_getD_map_ofNat]; omega
  · intro i hi; have := z4 i hi; simp only [cp_getD_map_ofNat]; omega
  · intro i hi; have := z3 i hi; simp only [cp_getD_map_ofNat]; omega
  · intro i hi; exact hb _ (cp_getD_mem _ _ _ (by simp; omega))
  · intro i hi; simp only [cp_getD_map_ofNat]; omega

/-- everything known about a successful run with both kinds of crossing. -/
theorem cp_main (sig : List Rat) (pad : Nat) (b : List Bool) (bd : Int) (P T : List Int) (rows : List SampleRow)
    (hlen : b.length = sig.length + 2 * pad) (hr : risingX b ≠ []) (hd : decayingX b ≠ [])
    (hs : findExtremaSpec sig pad b bd .peak = .ok (P, T))
    (h : computeCyclepoints sig pad b bd = .ok rows) :
    ∃ R D, CpGood P T R D sig.length bd P.length ∧ rows = (List.range (P.length - 1)).map (cpRowAt P T R D) := by
  obtain ⟨P', T', pk, tr, R, D, h1, h2, h3, h4, h5⟩ := cp_extract sig pad b bd rows h
  rw [findExtrema_eq_spec _ _ _ _ _ hlen hr hd, hs] at h1
  cases h1
  obtain ⟨a1, a2, _, a4⟩ := cp_spec_props sig pad b bd P T hlen hs
  have eP := cp_toNatList_ok P pk h2
  have eT := cp_toNatList_ok T tr h3
  subst eP eT
  have g := cp_good sig bd pk tr R D a1 (by simpa using a2) a4 h4
  simp only [List.length_map]
  refine ⟨_, _, g, ?_⟩
  rw [cp_assembleRows_eq _ _ _ _ pk.length g.lenP g.lenT g.lenD g.lenR] at h5
  cases h5
  rfl

/-- whenever a table is returned it is ordered, inside the signal, beyond the boundary, and tiles. -/
theorem computeCyclepoints_wellFormed (sig : List Rat) (pad : Nat) (b : List Bool) (bd : Int) (rows : List SampleRow)
    (hlen : b.length = sig.length + 2 * pad)
    (h : computeCyclepoints sig pad b bd = .ok rows) : wellFormed rows sig.length bd := by
  by_cases hdeg : risingX b = [] ∨ decayingX b = []
  · obtain ⟨e, he⟩ := computeCyclepoints_degenerate sig pad b bd hdeg
    rw [he] at h; cases h
  · have hr : risingX b ≠ [] := fun h' => hdeg (Or.inl h')
    have hd : decayingX b ≠ [] := fun h' => hdeg (Or.inr h')
    obtain ⟨P, T, pk, tr, R, D, h1, _⟩ := cp_extract sig pad b bd rows h
    rw [findExtrema_eq_spec _ _ _ _ _ hlen hr hd] at h1
    obtain ⟨R', D', g, rfl⟩ := cp_main sig pad b bd P T rows hlen hr hd h1 h
    exact g.wellFormed

/-- totality: with at least two kept peaks a table with one row per cycle is returned. -/
theorem computeCyclepoints_total (sig : List Rat) (pad : Nat) (b : List Bool) (bd : Int) (P T : List Int)
    (hlen : b.length = sig.length + 2 * pad) (hr : risingX b ≠ []) (hd : decayingX b ≠ []) (hbd : 0 ≤ bd)
    (hs : findExtremaSpec sig pad b bd .peak = .ok (P, T)) (h2 : 2 ≤ P.length) :
    ∃ rows, computeCyclepoints sig pad b bd = .ok rows ∧ rows.length = P.length - 1 := by
  have h1 : findExtrema sig pad b bd .peak = .ok (P, T) := by
    rw [findExtrema_eq_spec _ _ _ _ _ hlen hr hd, hs]
  obtain ⟨a1, a2, a3, a4⟩ := cp_spec_props sig pad b bd P T hlen hs
  obtain ⟨pk, hpk⟩ := cp_toNatList_succeeds P (fun x hx => by have := a3 x hx; omega)
  obtain ⟨tr, htr⟩ := cp_toNatList_succeeds T (fun x hx => by have := a4 x hx; omega)
  have eP := cp_toNatList_ok P pk hpk
  have eT := cp_toNatList_ok T tr htr
  subst eP eT
  simp only [List.length_map] at a2 h2 ⊢
  obtain ⟨c1, c2⟩ := cp_chain_nat pk tr a2 a1
  have c3 : ∀ i, i < pk.length → tr.getD i 0 < sig.length := by
    intro i hi
    have := a4 _ (cp_getD_mem (tr.map Int.ofNat) i 0 (by simp; omega))
    rw [cp_getD_map_ofNat] at this
    omega
  obtain ⟨R, D, hz⟩ := cp_findZerox_succeeds sig pk tr pk.length (by omega) rfl a2.symm c1 c2 c3
  have g := cp_good sig bd pk tr R D a1 a2 a4 hz
  rw [cp_compute_eq sig pad b bd _ _ pk tr R D h1 hpk htr hz,
    cp_assembleRows_eq _ _ _ _ pk.length g.lenP g.lenT g.lenD g.lenR]
  exact ⟨_, rfl, by simp⟩

/-- row `i` is centred on peak `i+1` and runs from trough `i` to trough `i+1`. -/
theorem computeCyclepoints_rows (sig : List Rat) (pad : Nat) (b : List Bool) (bd : Int) (P T : List Int)
    (rows : List SampleRow)
    (hlen : b.length = sig.length + 2 * pad) (hr : risingX b ≠ []) (hd : decayingX b ≠ [])
    (hs : findExtremaSpec sig pad b bd .peak = .ok (P, T))
    (h : computeCyclepoints sig pad b bd = .ok rows) (i : Nat) (hi : i < rows.length) :
    ∃ r, rows[i]? = some r ∧ P[i + 1]? = some r.peak ∧ T[i]? = some r.lastTrough ∧ T[i + 1]? = some r.nextTrough := by
  obtain ⟨R, D, g, rfl⟩ := cp_main sig pad b bd P T rows hlen hr hd hs h
  simp only [List.length_map, List.length_range] at hi
  have hP := g.lenP
  have hT := g.lenT
  refine ⟨cpRowAt P T R D i, by simp [hi], ?_, ?_, ?_⟩
  · simp only [cpRowAt, List.getD_eq_getElem?_getD]
    rw [List.getElem?_eq_getElem (by omega)]; rfl
  · simp only [cpRowAt, List.getD_eq_getElem?_getD]
    rw [List.getElem?_eq_getElem (by omega)]; rfl
  · simp only [cpRowAt, List.getD_eq_getElem?_getD]
    rw [List.getElem?_eq_getElem (by omega)]; rfl

end Bycycle
