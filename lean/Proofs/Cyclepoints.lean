import BycycleModel.Cyclepoints
import Proofs.Zerox
import Proofs.Extrema
/-!
# Helper lemmas for C01 (the cycle table is an ordered, gap-free segmentation)
-/
namespace Bycycle

/-- without a zero-crossing of each direction there is no table (the function raises). -/
theorem computeCyclepoints_degenerate (sig : List Rat) (pad : Nat) (b : List Bool) (bd : Int)
    (h : risingX b = [] ∨ decayingX b = []) : ∃ e, computeCyclepoints sig pad b bd = .error e := by
  sorry

/-- whenever a table is returned it is ordered, inside the signal, beyond the boundary, and tiles. -/
theorem computeCyclepoints_wellFormed (sig : List Rat) (pad : Nat) (b : List Bool) (bd : Int) (rows : List SampleRow)
    (hlen : b.length = sig.length + 2 * pad)
    (h : computeCyclepoints sig pad b bd = .ok rows) : wellFormed rows sig.length bd := by
  sorry

/-- totality: with at least two kept peaks a table with one row per cycle is returned. -/
theorem computeCyclepoints_total (sig : List Rat) (pad : Nat) (b : List Bool) (bd : Int) (P T : List Int)
    (hlen : b.length = sig.length + 2 * pad) (hr : risingX b ≠ []) (hd : decayingX b ≠ []) (hbd : 0 ≤ bd)
    (hs : findExtremaSpec sig pad b bd .peak = .ok (P, T)) (h2 : 2 ≤ P.length) :
    ∃ rows, computeCyclepoints sig pad b bd = .ok rows ∧ rows.length = P.length - 1 := by
  sorry

/-- row `i` is centred on peak `i+1` and runs from trough `i` to trough `i+1`. -/
theorem computeCyclepoints_rows (sig : List Rat) (pad : Nat) (b : List Bool) (bd : Int) (P T : List Int)
    (rows : List SampleRow)
    (hlen : b.length = sig.length + 2 * pad) (hr : risingX b ≠ []) (hd : decayingX b ≠ [])
    (hs : findExtremaSpec sig pad b bd .peak = .ok (P, T))
    (h : computeCyclepoints sig pad b bd = .ok rows) (i : Nat) (hi : i < rows.length) :
    ∃ r, rows[i]? = some r ∧ P[i + 1]? = some r.peak ∧ T[i]? = some r.lastTrough ∧ T[i + 1]? = some r.nextTrough := by
  sorry

end Bycycle
