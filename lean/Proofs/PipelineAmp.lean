import BycycleModel.PipelineAmp
import Proofs.Pipeline
import Proofs.Detect
/-! The amplitude-method pipeline: well-formed samples, fractions and labels by their specifications. -/
namespace Bycycle

theorem pipelineAmp_spec (c : Centre) (x : List Rat) (pad : Nat) (b : List Bool) (amp : List Rat) (bd : Int)
    (bkMinN thMinN dur : Option Rat) (detMask : Option Rat × Option Rat → List Bool) (thr : Rat) (o : PipeOutAmp)
    (hlen : b.length = x.length + 2 * pad) (h : pipelineAmp c x pad b amp bd bkMinN thMinN dur detMask thr = .ok o) :
    wellFormed o.samples x.length bd ∧
    o.fracs = o.samples.map (fun r => burstFractionSpec (detMask (detectorArgsSpec (bkMinN.getD (thMinN.getD 3)) dur)) r.lastTrough.toNat r.nextTrough.toNat) ∧
    (0 ≤ thr → thr ≤ 1 → (o.fracs = [] ∨ 0 ≤ bkMinN.getD (thMinN.getD 3)) → o.labels = ampSpec o.fracs thr (bkMinN.getD (thMinN.getD 3))) := by
  unfold pipelineAmp at h
  simp only [] at h
  split at h
  · simp at h
  · rename_i rows hrows
    split at h
    · simp at h
    · rename_i shape hshape
      split at h
      · simp at h
      · rename_i labels hlab
        simp only [Except.ok.injEq] at h
        subst h
        have hk := reconcileMinN_spec bkMinN thMinN
        have hwf : wellFormed rows x.length bd := by
          cases c with
          | peak => exact computeCyclepoints_wellFormed x pad b bd rows hlen hrows
          | trough =>
            have := computeCyclepoints_wellFormed (negSig x) pad b bd rows (by simpa [negSig] using hlen) hrows
            simpa [negSig] using this
        refine ⟨hwf, ?_, ?_⟩
        · show burstFraction _ _ = _
          rw [burstFraction_eq_spec, hk.2, List.map_map]
          have hd : detectorArgs (bkMinN.getD (thMinN.getD 3)) dur = detectorArgsSpec (bkMinN.getD (thMinN.getD 3)) dur := by
            cases dur <;> simp [detectorArgs, detectorArgsSpec, OptTest.eval, Slots.durationTest]
          rw [hd]
          rfl
        · intro h0 h1 hk2
          show labels = _
          have hrun : (reconcileMinN bkMinN thMinN).2 = bkMinN.getD (thMinN.getD 3) := by rw [← hk.1, hk.2]
          rw [hrun] at hlab
          have := detectAmp_eq_spec _ thr (bkMinN.getD (thMinN.getD 3)) h0 h1 hk2
          rw [this] at hlab
          simp only [Except.ok.injEq] at hlab
          exact hlab.symm

end Bycycle
