import BycycleModel.Plots
/-!
# Helper lemmas for C20 (plots)
-/
namespace Bycycle

/-- for a grid time (`x` within 1/2 of the integer `k`, as `fs * start` is up to float rounding) the
rounded offset is exactly the first sample in view. -/
theorem windowOffset_grid (x : Rat) (k : Int) (h1 : (k : Rat) - 1/2 < x) (h2 : x < (k : Rat) + 1/2) : windowOffset x = k := by
  have e : windowOffset x = (x + 1/2).floor := by simp [windowOffset, Slots.offsetsRounded]
  rw [e]
  have a : k ≤ (x + 1/2).floor := Rat.le_floor_iff.mpr (by grind)
  have b : (x + 1/2).floor < k + 1 := Rat.floor_lt_iff.mpr (by
    have : ((k + 1 : Int) : Rat) = (k : Rat) + 1 := by simp [Rat.intCast_add]
    rw [this]; grind)
  omega

/-- markers are sound: a drawn index `i` lies inside the limited arrays and `i + lo` is a genuine point. -/
theorem markerIdx_sound (lo len : Nat) (pts : List Int) (i : Int) (h : i ∈ markerIdx lo len lo pts) :
    0 ≤ i ∧ i < (len : Int) - 1 ∧ (i + lo) ∈ pts := by
  simp only [markerIdx, Slots.markerLoCmp, Slots.markerHiCmp, Cmp.evalInt, List.mem_map, List.mem_filter,
    Bool.and_eq_true, decide_eq_true_eq] at h
  obtain ⟨p, ⟨hp, h1, h2⟩, rfl⟩ := h
  refine ⟨by omega, by omega, ?_⟩
  have : p - (lo : Int) + lo = p := by omega
  rw [this]; exact hp

/-- markers are complete: every point strictly inside the view gets a marker. -/
theorem markerIdx_complete (lo len : Nat) (pts : List Int) (p : Int) (hp : p ∈ pts) (h1 : (lo : Int) < p) (h2 : p < (lo : Int) + len - 1) :
    (p - lo) ∈ markerIdx lo len lo pts := by
  simp only [markerIdx, Slots.markerLoCmp, Slots.markerHiCmp, Cmp.evalInt, List.mem_map, List.mem_filter,
    Bool.and_eq_true, decide_eq_true_eq]
  exact ⟨p, ⟨hp, by omega, h2⟩, rfl⟩

theorem setSlice_length (m : List Bool) (i j : Int) : (setSlice m i j).length = m.length := by
  simp [setSlice]

theorem setSlice_getD (m : List Bool) (i j : Int) (hi : 0 ≤ i) (hj : 0 ≤ j) (t : Nat) :
    (setSlice m i j).getD t false
      = (m.getD t false || (decide (i ≤ (t : Int)) && (decide ((t : Int) < j) && decide (t < m.length)))) := by
  simp only [setSlice, List.getD_eq_getElem?_getD, List.getElem?_mapIdx]
  by_cases ht : t < m.length
  · have hi' : ¬ i < 0 := by omega
    have hj' : ¬ j < 0 := by omega
    simp only [List.getElem?_eq_getElem ht, Option.map_some, Option.getD_some, hi', hj', if_false]
    by_cases hc : i ≤ (t : Int) ∧ (t : Int) < j
    · have : min i (m.length : Int) ≤ t ∧ (t : Int) < min j (m.length : Int) := by omega
      simp [this, hc, ht]
    · have : ¬ (min i (m.length : Int) ≤ t ∧ (t : Int) < min j (m.length : Int)) := by omega
      have h2 : ¬ (i ≤ (t : Int) ∧ (t : Int) < j ∧ t < m.length) := by omega
      simp [this, h2]
  · have : m[t]? = none := List.getElem?_eq_none (by omega)
    simp [ht]

theorem burstMask_length (len : Nat) (off : Int) (bursts : List (Int × Int)) : (burstMask len off bursts).length = len := by
  unfold burstMask
  suffices h : ∀ m : List Bool, (bursts.foldl (fun m (c : Int × Int) => setSlice m (c.1 - off) (c.2 + Slots.burstMaskEndPlus - off)) m).length = m.length by
    rw [h]; simp
  induction bursts with
  | nil => intro m; rfl
  | cons c cs ih => intro m; rw [List.foldl_cons, ih, setSlice_length]

theorem foldl_setSlice_getD (lo : Nat) (bursts : List (Int × Int)) (hb : ∀ c ∈ bursts, (lo : Int) ≤ c.1 ∧ c.1 ≤ c.2) (t : Nat) :
    ∀ m : List Bool,
      (bursts.foldl (fun m (c : Int × Int) => setSlice m (c.1 - lo) (c.2 + Slots.burstMaskEndPlus - lo)) m).getD t false
        = (m.getD t false || bursts.any fun c => (decide (c.1 - lo ≤ (t : Int)) && (decide ((t : Int) < c.2 + 1 - lo) && decide (t < m.length)))) := by
  induction bursts with
  | nil => intro m; simp
  | cons c cs ih =>
    intro m
    have hc := hb c (by simp)
    have e : ((Slots.burstMaskEndPlus : Nat) : Int) = 1 := rfl
    rw [List.foldl_cons, ih (fun c hc => hb c (by simp [hc])), setSlice_length,
      setSlice_getD _ _ _ (by omega) (by rw [e]; omega), e, List.any_cons, Bool.or_assoc]

/-- the highlight contains only samples of burst cycles (cycles are given with `lo ≤ last`, as `limit_df` guarantees). -/
theorem burstMask_sound (lo len : Nat) (bursts : List (Int × Int)) (hb : ∀ c ∈ bursts, (lo : Int) ≤ c.1 ∧ c.1 ≤ c.2) (t : Nat)
    (ht : (burstMask len lo bursts).getD t false = true) :
    ∃ c ∈ bursts, c.1 ≤ (t : Int) + lo ∧ (t : Int) + lo ≤ c.2 := by
  unfold burstMask at ht
  rw [foldl_setSlice_getD lo bursts hb t] at ht
  have h0 : (List.replicate len false).getD t false = false := by
    simp only [List.getD_eq_getElem?_getD, List.getElem?_replicate]
    split <;> rfl
  rw [h0, Bool.false_or, List.any_eq_true] at ht
  obtain ⟨c, hc, h⟩ := ht
  simp only [Bool.and_eq_true, decide_eq_true_eq] at h
  exact ⟨c, hc, by omega, by omega⟩

/-- … and all samples of every burst cycle lying entirely inside the view. -/
theorem burstMask_complete (lo len : Nat) (bursts : List (Int × Int)) (hb : ∀ c ∈ bursts, (lo : Int) ≤ c.1 ∧ c.1 ≤ c.2)
    (c : Int × Int) (hc : c ∈ bursts) (hin : c.2 < (lo : Int) + len) (s : Int) (hs : c.1 ≤ s ∧ s ≤ c.2) :
    (burstMask len lo bursts).getD (s - lo).toNat false = true := by
  unfold burstMask
  rw [foldl_setSlice_getD lo bursts hb]
  have := hb c hc
  rw [Bool.or_eq_true]; right
  rw [List.any_eq_true]
  refine ⟨c, hc, ?_⟩
  simp only [Bool.and_eq_true, decide_eq_true_eq, List.length_replicate]
  omega

end Bycycle
