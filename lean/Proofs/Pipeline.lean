import BycycleModel.Pipeline
import Proofs.Covariance
import Proofs.Detect
import Proofs.Cyclepoints
/-!
# Theorems about the composed pipeline (used by C01, C06, C09, C10)
-/
namespace Bycycle

/-! ## auxiliary lemmas: a staged form of `pipelineCycles` -/
namespace PipeAux

def mir (s : ShapeRow) : ShapeRow := Slots.flipShape (Slots.renameShape s)

def mkFeats (n : Nat) (af : List Rat) (ac pcn mono : List F) : List CycRow :=
  (List.range n).map fun i =>
    (⟨af[i]?, (ac.getD i .nan).toOptRat, (pcn.getD i .nan).toOptRat, (mono.getD i .nan).toOptRat⟩ : CycRow)

def burstStage (pc : Bool) (sig : List Rat) (rows : List SampleRow) (shape : List ShapeRow) (th : CycThresh) :
    Except Err PipeOut := do
  let af := ampFraction (shape.map (·.voltAmp))
  let ac ← ampConsistency pc .both (shape.map (·.voltRise)) (shape.map (·.voltDecay))
  let pcn ← periodConsistency .both (shape.map fun s => (s.period : Rat))
  let mono := monotonicity pc sig (rows.map fun r => (r.lastTrough, r.peak, r.nextTrough))
  let feats := mkFeats shape.length af ac pcn mono
  let labels ← detectCycles feats th
  .ok ⟨rows, shape, feats, labels⟩

theorem pipelineCycles_eq (c : Centre) (x : List Rat) (pad : Nat) (b : List Bool) (amp : List Rat) (bd : Int) (th : CycThresh) :
    pipelineCycles c x pad b amp bd th =
      (do
        let used := match c with | .peak => x | .trough => negSig x
        let rows ← computeCyclepoints used pad b bd
        let shape ← shapeFeatures c used amp rows
        burstStage (decide (c = .peak)) x rows shape th) := rfl

theorem map_voltAmp_mir (sh : List ShapeRow) : (sh.map mir).map (·.voltAmp) = sh.map (·.voltAmp) := by
  simp [mir, Slots.flipShape, Slots.renameShape, Function.comp_def]
theorem map_period_mir (sh : List ShapeRow) : (sh.map mir).map (fun s => (s.period : Rat)) = sh.map (fun s => (s.period : Rat)) := by
  simp [mir, Slots.flipShape, Slots.renameShape, Function.comp_def]
theorem map_voltRise_mir (sh : List ShapeRow) : (sh.map mir).map (·.voltRise) = sh.map (·.voltDecay) := by
  simp [mir, Slots.flipShape, Slots.renameShape, Function.comp_def]
theorem map_voltDecay_mir (sh : List ShapeRow) : (sh.map mir).map (·.voltDecay) = sh.map (·.voltRise) := by
  simp [mir, Slots.flipShape, Slots.renameShape, Function.comp_def]

theorem burstStage_mirror (x : List Rat) (rows : List SampleRow) (sh : List ShapeRow) (th : CycThresh) :
    burstStage false x rows (sh.map mir) th = (burstStage true (negSig x) rows sh th).map PipeOut.mirror := by
  unfold burstStage
  rw [map_voltAmp_mir, map_period_mir, map_voltRise_mir, map_voltDecay_mir, List.length_map,
    ampConsistency_mirror .both _ _ (by simp), monotonicity_mirror]
  cases ampConsistency true .both (sh.map (·.voltRise)) (sh.map (·.voltDecay)) with
  | error e => rfl
  | ok ac =>
    cases periodConsistency .both (sh.map fun s => (s.period : Rat)) with
    | error e => rfl
    | ok pcn =>
      simp only [bind, Except.bind]
      cases detectCycles _ th with
      | error e => rfl
      | ok l => rfl


theorem pipeline_mirror' (x : List Rat) (pad : Nat) (b : List Bool) (amp : List Rat) (bd : Int) (th : CycThresh) :
    pipelineCycles .trough x pad b amp bd th = (pipelineCycles .peak (negSig x) pad b amp bd th).map PipeOut.mirror := by
  rw [pipelineCycles_eq, pipelineCycles_eq]
  simp only [shape_mirror]
  cases computeCyclepoints (negSig x) pad b bd with
  | error e => rfl
  | ok rows =>
    simp only [bind, Except.bind]
    cases shapeFeatures .peak (negSig x) amp rows with
    | error e => rfl
    | ok sh =>
      exact burstStage_mirror x rows sh th

/-! scale -/
theorem map_voltAmp_scale (a : Rat) (sh : List ShapeRow) : (sh.map (ShapeRow.scaleVolts a)).map (·.voltAmp) = scaleSig a (sh.map (·.voltAmp)) := by
  simp [ShapeRow.scaleVolts, scaleSig, Function.comp_def]
theorem map_voltRise_scale (a : Rat) (sh : List ShapeRow) : (sh.map (ShapeRow.scaleVolts a)).map (·.voltRise) = scaleSig a (sh.map (·.voltRise)) := by
  simp [ShapeRow.scaleVolts, scaleSig, Function.comp_def]
theorem map_voltDecay_scale (a : Rat) (sh : List ShapeRow) : (sh.map (ShapeRow.scaleVolts a)).map (·.voltDecay) = scaleSig a (sh.map (·.voltDecay)) := by
  simp [ShapeRow.scaleVolts, scaleSig, Function.comp_def]
theorem map_period_scale (a : Rat) (sh : List ShapeRow) : (sh.map (ShapeRow.scaleVolts a)).map (fun s => (s.period : Rat)) = sh.map (fun s => (s.period : Rat)) := by
  simp [ShapeRow.scaleVolts, Function.comp_def]

theorem burstStage_scale (a : Rat) (ha : 0 < a) (pc : Bool) (x : List Rat) (rows : List SampleRow) (sh : List ShapeRow) (th : CycThresh) :
    burstStage pc (scaleSig a x) rows (sh.map (ShapeRow.scaleVolts a)) th = (burstStage pc x rows sh th).map (PipeOut.scaleVolts a) := by
  unfold burstStage
  rw [map_voltAmp_scale, map_period_scale, map_voltRise_scale, map_voltDecay_scale, List.length_map,
    ampConsistency_scale a ha, monotonicity_scale a ha, ampFraction_scale a ha]
  cases ampConsistency pc .both (sh.map (·.voltRise)) (sh.map (·.voltDecay)) with
  | error e => rfl
  | ok ac =>
    cases periodConsistency .both (sh.map fun s => (s.period : Rat)) with
    | error e => rfl
    | ok pcn =>
      simp only [bind, Except.bind]
      cases detectCycles _ th with
      | error e => rfl
      | ok l => rfl

theorem pipeline_scale_peak' (a : Rat) (ha : 0 < a) (x : List Rat) (pad : Nat) (b : List Bool) (amp : List Rat) (bd : Int) (th : CycThresh) :
    pipelineCycles .peak (scaleSig a x) pad b (scaleSig a amp) bd th =
      (pipelineCycles .peak x pad b amp bd th).map (PipeOut.scaleVolts a) := by
  rw [pipelineCycles_eq, pipelineCycles_eq]
  simp only [computeCyclepoints_scale a ha, shapeFeatures, shapePeak_scale a ha]
  cases computeCyclepoints x pad b bd with
  | error e => rfl
  | ok rows =>
    simp only [bind, Except.bind]
    cases shapePeak x amp rows with
    | error e => rfl
    | ok sh =>
      exact burstStage_scale a ha _ x rows sh th

theorem negSig_scaleSig (a : Rat) (x : List Rat) : negSig (scaleSig a x) = scaleSig a (negSig x) := by
  simp [negSig, scaleSig, Function.comp_def]

theorem mir_scale (a : Rat) (s : ShapeRow) : mir (ShapeRow.scaleVolts a s) = ShapeRow.scaleVolts a (mir s) := by
  simp [mir, Slots.flipShape, Slots.renameShape, ShapeRow.scaleVolts]

theorem pipeline_scale_trough' (a : Rat) (ha : 0 < a) (x : List Rat) (pad : Nat) (b : List Bool) (amp : List Rat) (bd : Int) (th : CycThresh) :
    pipelineCycles .trough (scaleSig a x) pad b (scaleSig a amp) bd th =
      (pipelineCycles .trough x pad b amp bd th).map (PipeOut.scaleVolts a) := by
  rw [pipelineCycles_eq, pipelineCycles_eq]
  simp only [negSig_scaleSig, computeCyclepoints_scale a ha, shapeFeatures, shapePeak_scale a ha]
  cases computeCyclepoints (negSig x) pad b bd with
  | error e => rfl
  | ok rows =>
    simp only [bind, Except.bind]
    cases shapePeak (negSig x) amp rows with
    | error e => rfl
    | ok sh =>
      simp only [Except.map, List.map_map]
      have : (fun s => Slots.flipShape (Slots.renameShape s)) ∘ ShapeRow.scaleVolts a = ShapeRow.scaleVolts a ∘ mir := by
        funext s; exact mir_scale a s
      rw [this, ← List.map_map]
      exact burstStage_scale a ha _ x rows (sh.map mir) th


theorem shapePeak_length (sig amp : List Rat) (rows : List SampleRow) (sh : List ShapeRow)
    (h : shapePeak sig amp rows = .ok sh) : sh.length = rows.length := by
  unfold shapePeak at h
  cases h1 : rows.mapM (shapeOfRow sig) with
  | error e => rw [h1] at h; cases h
  | ok v =>
    have hv := (cp_mapM_ok _ _ _ h1).1
    rw [h1] at h
    cases rows with
    | nil => simp [bandAmps, bind, Except.bind] at h
    | cons r0 rs =>
      simp only [bandAmps, bind, Except.bind, Except.ok.injEq] at h
      subst h
      simp [hv]

theorem shapeFeatures_length (c : Centre) (sig amp : List Rat) (rows : List SampleRow) (sh : List ShapeRow)
    (h : shapeFeatures c sig amp rows = .ok sh) : sh.length = rows.length := by
  cases c with
  | peak => exact shapePeak_length sig amp rows sh h
  | trough =>
    unfold shapeFeatures at h
    simp only at h
    cases h1 : shapePeak sig amp rows with
    | error e => rw [h1] at h; cases h
    | ok v =>
      rw [h1] at h
      simp only [Except.map, Except.ok.injEq] at h
      subst h
      simpa using shapePeak_length sig amp rows v h1

theorem burstStage_ok (pc : Bool) (sig : List Rat) (rows : List SampleRow) (shape : List ShapeRow) (th : CycThresh)
    (o : PipeOut) (h : burstStage pc sig rows shape th = .ok o) :
    o.samples = rows ∧ o.shape = shape ∧ o.feats.length = shape.length ∧ detectCycles o.feats th = .ok o.labels := by
  unfold burstStage at h
  cases h1 : ampConsistency pc .both (shape.map (·.voltRise)) (shape.map (·.voltDecay)) with
  | error e => rw [h1] at h; cases h
  | ok ac =>
    rw [h1] at h
    cases h2 : periodConsistency .both (shape.map fun s => (s.period : Rat)) with
    | error e => rw [h2] at h; cases h
    | ok pcn =>
      rw [h2] at h
      simp only [bind, Except.bind] at h
      generalize hf : mkFeats _ _ _ _ _ = feats at h
      cases h3 : detectCycles feats th with
      | error e => rw [h3] at h; cases h
      | ok l =>
        rw [h3] at h
        cases h
        refine ⟨rfl, rfl, ?_, h3⟩
        simp [← hf, mkFeats]

theorem pipeline_extract (c : Centre) (x : List Rat) (pad : Nat) (b : List Bool) (amp : List Rat) (bd : Int) (th : CycThresh)
    (o : PipeOut) (h : pipelineCycles c x pad b amp bd th = .ok o) :
    ∃ rows shape, computeCyclepoints (match c with | .peak => x | .trough => negSig x) pad b bd = .ok rows ∧
      shapeFeatures c (match c with | .peak => x | .trough => negSig x) amp rows = .ok shape ∧
      burstStage (decide (c = .peak)) x rows shape th = .ok o := by
  rw [pipelineCycles_eq] at h
  simp only at h
  generalize (match c with | .peak => x | .trough => negSig x) = used at h ⊢
  cases h1 : computeCyclepoints used pad b bd with
  | error e => rw [h1] at h; cases h
  | ok rows =>
    rw [h1] at h
    simp only [bind, Except.bind] at h
    cases h2 : shapeFeatures c used amp rows with
    | error e => rw [h2] at h; cases h
    | ok sh =>
      rw [h2] at h
      exact ⟨rows, sh, rfl, h2, h⟩

theorem pipeline_labels' (c : Centre) (x : List Rat) (pad : Nat) (b : List Bool) (amp : List Rat) (bd : Int) (th : CycThresh)
    (o : PipeOut) (h : pipelineCycles c x pad b amp bd th = .ok o) (hv : th.valid) (hk : 0 ≤ th.minN) :
    o.labels = cyclesSpec o.feats th ∧ o.feats.length = o.samples.length ∧ o.shape.length = o.samples.length := by
  obtain ⟨rows, shape, h1, h2, h3⟩ := pipeline_extract c x pad b amp bd th o h
  obtain ⟨e1, e2, e3, e4⟩ := burstStage_ok _ _ _ _ _ _ h3
  have hl := shapeFeatures_length _ _ _ _ _ h2
  rw [detectCycles_eq_spec _ th hv (Or.inr hk)] at e4
  refine ⟨(Except.ok.inj e4).symm, ?_, ?_⟩
  · rw [e3, e1, hl]
  · rw [e2, e1, hl]

theorem pipeline_wellFormed' (c : Centre) (x : List Rat) (pad : Nat) (b : List Bool) (amp : List Rat) (bd : Int) (th : CycThresh)
    (o : PipeOut) (hlen : b.length = x.length + 2 * pad) (h : pipelineCycles c x pad b amp bd th = .ok o) :
    wellFormed o.samples x.length bd := by
  obtain ⟨rows, shape, h1, h2, h3⟩ := pipeline_extract c x pad b amp bd th o h
  obtain ⟨e1, -⟩ := burstStage_ok _ _ _ _ _ _ h3
  rw [e1]
  cases c with
  | peak => exact computeCyclepoints_wellFormed x pad b bd rows hlen h1
  | trough =>
    have := computeCyclepoints_wellFormed (negSig x) pad b bd rows (by simpa [negSig] using hlen) h1
    simpa [negSig] using this


theorem trimCore_three (A B : List Int) (h : altS none A B = true ∨ altS none B A = true)
    (hA : 3 ≤ A.length) (hB : 3 ≤ B.length) :
    ∃ A' B', trimCore A B = .ok (A', B') ∧ 2 ≤ A'.length := by
  cases A with
  | nil => simp at hA
  | cons a0 A' =>
    cases B with
    | nil => simp at hB
    | cons b0 B' =>
      rcases h with h | h
      · have h' := h
        rw [altS_cons_iff] at h'
        have hlb := altS_lb _ _ _ h'.2 a0 rfl
        have hf : (b0 :: B').filter (fun t => decide (a0 < t)) = b0 :: B' := by
          rw [List.filter_eq_self]
          intro x hx
          simpa using hlb.1 x hx
        obtain ⟨pl, tl, e1, e2, e3, e4, e5⟩ := altS_end (a0 :: A') none (b0 :: B') h (by simp)
        refine ⟨(a0 :: A').filter (fun p => decide (p < tl)), b0 :: B', ?_, ?_⟩
        · unfold trimCore
          simp only [List.head?_cons, hf, e2]
        · rw [e5]; omega
      · have h' := h
        rw [altS_cons_iff, altS_cons_iff] at h'
        obtain ⟨_, hba, h3⟩ := h'
        have hba' : b0 < a0 := hba b0 rfl
        have hn : ¬ a0 < b0 := by omega
        have hlb := altS_lb _ _ _ h3 a0 rfl
        have hf : (b0 :: B').filter (fun t => decide (a0 < t)) = B' := by
          rw [List.filter_cons_of_neg (by simpa using hn), List.filter_eq_self]
          intro x hx
          simpa using hlb.1 x hx
        have hB' : B' ≠ [] := by
          intro e; subst e; simp at hB
        have hA1 : altS (some b0) (a0 :: A') B' = true := by
          rw [altS_cons_iff]; exact ⟨hba, h3⟩
        obtain ⟨pl, tl, e1, e2, e3, e4, e5⟩ := altS_end (a0 :: A') (some b0) B' hA1 hB'
        refine ⟨(a0 :: A').filter (fun p => decide (p < tl)), B', ?_, ?_⟩
        · unfold trimCore
          simp only [List.head?_cons, hf, e2]
        · rw [e5]; simp at hB; omega

theorem three_oscillations' (sig : List Rat) (pad : Nat) (b : List Bool) (bd : Int)
    (hlen : b.length = sig.length + 2 * pad)
    (hP : 3 ≤ (boundarySpec (peaksSpec (List.replicate pad (0 : Rat) ++ sig ++ List.replicate pad 0) b) pad sig.length bd).length)
    (hT : 3 ≤ (boundarySpec (troughsSpec (List.replicate pad (0 : Rat) ++ sig ++ List.replicate pad 0) b) pad sig.length bd).length) :
    ∃ P T, findExtremaSpec sig pad b bd .peak = .ok (P, T) ∧ 2 ≤ P.length := by
  have hl : (List.replicate pad (0 : Rat) ++ sig ++ List.replicate pad 0).length = b.length := by
    simp; omega
  have sa := boundary_alternating _ _ pad sig.length bd (spec_alternating _ b hl)
  rw [StrictAlt_iff] at sa
  unfold findExtremaSpec
  simp only [trimSpec_peak_eq]
  exact trimCore_three _ _ sa hP hT

end PipeAux

/-- C09 at the level of the whole analysis: analysing `x` trough-centred gives the mirror image of analysing
`−x` peak-centred (same kernels' answers: the sign pattern of the filtered `−x`, and `amp(−x) = amp(x)`). -/
theorem pipeline_mirror (x : List Rat) (pad : Nat) (b : List Bool) (amp : List Rat) (bd : Int) (th : CycThresh) :
    pipelineCycles .trough x pad b amp bd th = (pipelineCycles .peak (negSig x) pad b amp bd th).map PipeOut.mirror := by
  exact PipeAux.pipeline_mirror' x pad b amp bd th

/-- C10 at the level of the whole analysis (peak centring): scaling the signal (and, by homogeneity of the kernel,
`amp`) by `a > 0` scales the voltage features and leaves sample indices, burst features and labels unchanged. -/
theorem pipeline_scale_peak (a : Rat) (ha : 0 < a) (x : List Rat) (pad : Nat) (b : List Bool) (amp : List Rat) (bd : Int) (th : CycThresh) :
    pipelineCycles .peak (scaleSig a x) pad b (scaleSig a amp) bd th =
      (pipelineCycles .peak x pad b amp bd th).map (PipeOut.scaleVolts a) := by
  exact PipeAux.pipeline_scale_peak' a ha x pad b amp bd th

theorem pipeline_scale_trough (a : Rat) (ha : 0 < a) (x : List Rat) (pad : Nat) (b : List Bool) (amp : List Rat) (bd : Int) (th : CycThresh) :
    pipelineCycles .trough (scaleSig a x) pad b (scaleSig a amp) bd th =
      (pipelineCycles .trough x pad b amp bd th).map (PipeOut.scaleVolts a) := by
  exact PipeAux.pipeline_scale_trough' a ha x pad b amp bd th

/-- C06 at the level of the whole analysis: the returned labels are the threshold-and-run rule applied to the
returned features. -/
theorem pipeline_labels (c : Centre) (x : List Rat) (pad : Nat) (b : List Bool) (amp : List Rat) (bd : Int) (th : CycThresh)
    (o : PipeOut) (h : pipelineCycles c x pad b amp bd th = .ok o) (hv : th.valid) (hk : 0 ≤ th.minN) :
    o.labels = cyclesSpec o.feats th ∧ o.feats.length = o.samples.length ∧ o.shape.length = o.samples.length := by
  exact PipeAux.pipeline_labels' c x pad b amp bd th o h hv hk

/-- C01 at the level of the whole analysis: the sample columns of every returned table are well-formed. -/
theorem pipeline_wellFormed (c : Centre) (x : List Rat) (pad : Nat) (b : List Bool) (amp : List Rat) (bd : Int) (th : CycThresh)
    (o : PipeOut) (hlen : b.length = x.length + 2 * pad) (h : pipelineCycles c x pad b amp bd th = .ok o) :
    wellFormed o.samples x.length bd := by
  exact PipeAux.pipeline_wellFormed' c x pad b amp bd th o hlen h

/-- three kept peaks and three kept troughs (three full oscillations inside the boundary) are enough for a table. -/
theorem three_oscillations (sig : List Rat) (pad : Nat) (b : List Bool) (bd : Int)
    (hlen : b.length = sig.length + 2 * pad)
    (hP : 3 ≤ (boundarySpec (peaksSpec (List.replicate pad (0 : Rat) ++ sig ++ List.replicate pad 0) b) pad sig.length bd).length)
    (hT : 3 ≤ (boundarySpec (troughsSpec (List.replicate pad (0 : Rat) ++ sig ++ List.replicate pad 0) b) pad sig.length bd).length) :
    ∃ P T, findExtremaSpec sig pad b bd .peak = .ok (P, T) ∧ 2 ≤ P.length := by
  exact PipeAux.three_oscillations' sig pad b bd hlen hP hT

end Bycycle
